"""C05 - ids unique inside every WBS/tree; lookup by id exact; WBS.tasks depth-first."""
from harness import graph
from harness.graph_meta import *  # noqa

PROPERTY = 'C05'


def harnesses(tier):
    if tier == 'quick':
        return [
            {'name': 'attach-N3-W2', 'fn': graph.h_step,
             'cfg': {'prop': 'C05', 'N': 3, 'nW': 2, 'seqlen': 2, 'ops': graph.ATTACH_OPS + ['ch_reorder', 'ch_sort']}},
            {'name': 'reparent-N4-detached', 'fn': graph.h_step,
             'cfg': {'prop': 'C05', 'N': 4, 'nW': 0, 'seqlen': 1, 'links': False, 'ops': ['set_parent', 'ch_append', 'ch_insert']}},
            {'name': 'lookup-N4', 'fn': graph.h_lookup, 'cfg': {'N': 4, 'nW': 1}},
            {'name': 'lookup-mixed-types-N3', 'fn': graph.h_lookup_mixed, 'cfg': {'N': 3}},
        ]
    return [
        {'name': 'step-N3-W2-all', 'fn': graph.h_step,
         'cfg': {'prop': 'C05', 'N': 3, 'nW': 2, 'seqlen': 3, 'ops': graph.ALL_OPS}},
        {'name': 'attach-N4-W1', 'fn': graph.h_step,
         'cfg': {'prop': 'C05', 'N': 4, 'nW': 1, 'seqlen': 1, 'ops': graph.ATTACH_OPS}},
        {'name': 'lookup-N5', 'fn': graph.h_lookup, 'cfg': {'N': 5, 'nW': 1}},
        {'name': 'lookup-mixed-types-N4', 'fn': graph.h_lookup_mixed, 'cfg': {'N': 4, 'range': (0, 3)}},
    ]
