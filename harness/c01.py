"""C01 - hierarchy and dependency graph stay well-formed under any mutation history."""
from harness import graph

PROPERTY = 'C01'
from harness.graph_meta import *  # noqa


def harnesses(tier):
    if tier == 'quick':
        return [
            {'name': 'earlier-link-view-N3', 'fn': graph.h_stale_link_view, 'cfg': {'N': 3, 'nW': 0, 'flat': True, 'props': ['C01'], 'ops1': ['set_preds', 'set_succs', 'pred_append', 'succ_append', 'pred_remove']}},
            {'name': 'earlier-view-N2', 'fn': graph.h_stale_view, 'cfg': {'N': 2, 'nW': 1, 'props': ['C01'], 'ops1': ['ch_remove', 'wbs_remove', 'set_parent'], 'ops2': ['ch_sort', 'ch_reorder', 'ch_insert', 'ch_move', 'ch_remove']}},
            {'name': 'step-N3-W1', 'fn': graph.h_step,
             'cfg': {'prop': 'C01', 'N': 3, 'nW': 1, 'seqlen': 2, 'ops': graph.ALL_OPS}},
            {'name': 'reparent-N4-detached', 'fn': graph.h_step,
             'cfg': {'prop': 'C01', 'N': 4, 'nW': 0, 'seqlen': 1, 'ops': ['set_parent', 'ch_append', 'floordiv']}},
            {'name': 'links-N4-flat', 'fn': graph.h_step,
             'cfg': {'prop': 'C01', 'N': 4, 'nW': 0, 'seqlen': 1, 'flat': True, 'ops': graph.LINK_OPS}},
            {'name': 'generator-validation-N3-W2', 'fn': graph.h_generator, 'cfg': {'N': 3, 'nW': 2}},
        ]
    return [
        {'name': 'earlier-link-view-N3-W1', 'fn': graph.h_stale_link_view, 'cfg': {'N': 3, 'nW': 1, 'props': ['C01'], 'ops1': ['set_preds', 'set_succs', 'pred_append', 'succ_append', 'pred_remove', 'succ_remove', 'lshift', 'rshift']}},
        {'name': 'earlier-view-N3', 'fn': graph.h_stale_view, 'cfg': {'N': 3, 'nW': 1, 'props': ['C01'], 'ops1': ['ch_remove', 'wbs_remove', 'set_parent'], 'ops2': ['ch_sort', 'ch_reorder', 'ch_insert', 'ch_move', 'ch_remove']}},
        {'name': 'step-N3-W2', 'fn': graph.h_step,
         'cfg': {'prop': 'C01', 'N': 3, 'nW': 2, 'seqlen': 3, 'ops': graph.ALL_OPS}},
        {'name': 'step-N4-W1-hierarchy-ops', 'fn': graph.h_step,
         'cfg': {'prop': 'C01', 'N': 4, 'nW': 1, 'seqlen': 1, 'ops': graph.HIER_OPS}, 'deadline_s': 3000},
        {'name': 'step-N4-W1-link-ops', 'fn': graph.h_step,
         'cfg': {'prop': 'C01', 'N': 4, 'nW': 1, 'seqlen': 1, 'ops': graph.LINK_OPS + ['list_lshift', 'list_rshift']}},
    ]
