"""C13 - write_csv followed by read_csv reproduces the WBS."""
import csv
import datetime as _real
import io
import os
import shutil
import tempfile
import zlib

import z3

from symx import (check, check_all, choose, assume, note, fresh_int, fresh_real, fresh_bool, And, Or, Not, is_native, core)
from symx import xstr
from symx.xstr import fresh_str, raw
from symx.stubs import _Installed

from pjplan import Task, WBS, read_csv, write_csv

PROPERTY = 'C13'
LEVEL = 'other'
EXPLANATION = ('Bounded symbolic execution of write_csv / read_csv / tasks_to_raws / raws_to_wbs with SMT: task ids are '
               'symbolic integers (any value incl. 0 and negatives; the solver chooses the ones that matter), estimates/spent '
               'symbolic rationals or missing, milestone symbolic, text fields None / empty / opaque symbolic strings / '
               'concrete adversarial strings; the files are really written and read (csv C code runs on token strings; '
               'str(id) is a token that the shadowed int()/float() of pjplan.io.csv_io map back to the symbolic value, so every id '
               'comparison and dict lookup in the reader is a solver decision). The statement\'s equalities, the byte fixpoint '
               'and a permuted/BOM/newline variant of the file are asserted on every path.')
RULE = ('one evaluation = one symbolic path (shape, links, which fields are present, date menu, text kind forked; ids, quantities, '
        'milestone flags symbolic)')
BOUNDS = {'quick': {'tasks': 3, 'ids': 'symbolic in [-2^31, 2^31]', 'dates': 'menu around the two-digit-year pivots',
                    'texts': 'None, empty, opaque symbolic (len>=1, safe alphabet), adversarial concrete menu'},
          'thorough': {'tasks': 4}}
OUTSIDE = ['character-level quoting of arbitrary text: _csv and TextIOWrapper are C code, executed concretely on the adversarial '
           'menu only (; " newline CRLF BOM non-ASCII leading space)', 'custom attribute names colliding with Task API names',
           'encodings other than utf-8', 'dates with a time of day (the format has day precision)']
STUBS = ['int/float in pjplan.io.csv_io -> symx.xstr.xint/xfloat (identical on ordinary strings; decimal tokens map back to the '
         'symbolic number: int(str(x)) == x and float(repr(x)) == x are CPython guarantees)',
         'str(SymInt/SymReal) -> canonical opaque token; str(SymBool) decides and prints True/False']
ASSUMPTIONS = ['opaque symbolic strings stand for texts without ; " CR LF BOM (csv writes such fields verbatim)',
               'CPython int/float <-> str round trips are exact']

DATES = [None, _real.datetime(1969, 1, 1), _real.datetime(1999, 12, 31), _real.datetime(2000, 1, 1), _real.datetime(2068, 12, 31),
         _real.datetime(2024, 2, 29)]
ADVERSARIAL = ['a;b', 'say "hi"', 'l1\nl2', 'cr\r\nlf', ' lead ', '﻿bom', 'ünï-ж', 'a;"b\nc";', "'", ';', '""']


# (name, resource, start, end, has estimate, has spent, min_start, custom): every value of every dimension occurs
# concrete binary64 quantities whose text form needs all 17 significant digits (opaque symbolic numbers cannot show a lossy format)
FLOATS = [0.1 + 0.2, 1234567.25, 1 / 3, 2.5e-7]

PROFILES = [
    ('sym', 'sym', 0, 0, 1, 1, 0, None),
    (None, '', 1, 4, 0, 0, 1, 'prio'),
    ('', None, 2, 3, 1, 0, 2, 'sym'),
    (0, 1, 5, 5, 0, 1, 0, 2),
    (3, 4, 3, 1, 1, 1, 5, 5),
    (6, 7, 0, 2, 0, 0, 0, 8),
    (9, 10, 4, 0, 1, 1, 3, None),
    ('sym', 2, 1, 1, 1, 0, 4, ''),
    (5, 'sym', 0, 0, 0, 1, 0, 'none'),
    ('sym', None, 0, 0, 2, 3, 0, None),
    (None, 'sym', 1, 0, 4, 5, 0, None),
]


def text_of(kind, name):
    if kind is None or kind == 'none':
        return None
    if kind == '':
        return ''
    if kind == 'sym':
        return fresh_str(name, min_len=1)
    return ADVERSARIAL[kind]


def text_value(name, cfg):
    k = choose(name, 4)
    if k == 0:
        return None
    if k == 1:
        return ''
    if k == 2:
        return fresh_str(name, min_len=1)
    return ADVERSARIAL[choose(name + '#adv', len(ADVERSARIAL))] if cfg.get('adversarial', True) else 'plain'


def same_text(a, b):
    a = '' if a is None else raw(a)
    b = '' if b is None else raw(b)
    return a == b


def h(cfg):
    xstr.install()
    xstr.install_decimal()
    n = cfg['n']
    parent = [-1] * n
    for i in range(1, n):
        cands = [-1]
        j = i - 1
        while j != -1:
            cands.append(j)
            j = parent[j]
        parent[i] = cands[choose(f'par{i}', len(cands))]
    ids = [fresh_int(f'id{i}', -(2 ** 31), 2 ** 31) for i in range(n)]
    if not is_native() and n > 1:
        core.ctx().add(z3.Distinct(*[x.e for x in ids]))
    tasks = []
    detail_task = choose('rich', n)  # one task carries the rich field population, the others are plain
    prof = PROFILES[choose('profile', len(PROFILES))]
    for i in range(n):
        if i == detail_task:
            nk, rk, sd, ed, he, hs, msd, ck = prof
            t = Task(ids[i], text_of(nk, f'name{i}'), resource=text_of(rk, f'res{i}'),
                     start=DATES[sd], end=DATES[ed],
                     estimate=(FLOATS[he - 2] if he >= 2 else fresh_real(f'est{i}', 0, 100)) if he else None,
                     spent=(FLOATS[hs - 2] if hs >= 2 else fresh_real(f'spent{i}', 0, 100)) if hs else None,
                     milestone=fresh_bool(f'ms{i}'),
                     min_start=DATES[msd])
            if ck == 'prio':
                t.prio = fresh_int(f'prio{i}', -9, 9)
            elif ck is not None:
                t.note = text_of(ck, f'note{i}')
        else:
            t = Task(ids[i], f't{i}', estimate=i)
        tasks.append(t)
    w = WBS()
    for i in range(n):
        if parent[i] == -1:
            w.roots.append(tasks[i])
        else:
            tasks[parent[i]].children.append(tasks[i])
    links = []
    for i in range(n):
        for j in range(i + 1, n):
            anc = []
            x = j
            while parent[x] != -1:
                x = parent[x]
                anc.append(x)
            if i in anc:
                continue
            c = choose(f'lk{i}_{j}', 3) if cfg.get('links', True) else 0
            if c == 1:
                try:
                    tasks[j].predecessors.append(tasks[i])
                except RuntimeError:
                    assume(False, 'cyclic')
                links.append((i, j))
            elif c == 2 and not any(a == i for a, b in links if b == j):
                try:
                    tasks[i].predecessors.append(tasks[j])
                    links.append((j, i))
                except RuntimeError:
                    assume(False, 'cyclic')
    desc = f'parent={parent} links={links} rich=t{detail_task}'
    note('desc', desc)
    note('class', zlib.crc32((desc + str(core.ctx().notes.get('choices'))).encode()))
    tmp = tempfile.mkdtemp(prefix='symx-csv-')
    inst = _Installed()
    inst.set('pjplan.io.csv_io', 'int', xstr.xint)
    inst.set('pjplan.io.csv_io', 'float', xstr.xfloat)
    try:
        p1 = os.path.join(tmp, 'a.csv')
        try:
            write_csv(w, p1)
            r = read_csv(p1)
        except Exception as ex:
            check(False, 'C13 round trip raised', detail=f'{type(ex).__name__}: {str(ex)[:60]}')
            return
        compare(w, r, tasks, parent, 'after write/read')
        # fixpoint: the file written from the re-read WBS is reproduced byte for byte by a further cycle
        p2, p3 = os.path.join(tmp, 'b.csv'), os.path.join(tmp, 'c.csv')
        try:
            write_csv(r, p2)
            r2 = read_csv(p2)
            write_csv(r2, p3)
        except Exception as ex:
            check(False, 'C13 second cycle raised', detail=type(ex).__name__)
            return
        b2, b3 = open(p2, 'rb').read(), open(p3, 'rb').read()
        check(b2 == b3, 'C13 one round trip is not a fixpoint (files differ)')
        # hand-written variant of the same rows: BOM, permuted columns, other line ends
        variant = choose('variant', 3)
        with open(p1, encoding='utf-8', newline='') as f:
            rows = list(csv.reader(f, delimiter=';'))
        perm = list(range(len(rows[0])))
        if variant != 0:
            perm = perm[::-1]
        buf = io.StringIO()
        cw = csv.writer(buf, delimiter=';', lineterminator='\n' if variant == 1 else '\r\n')
        for row in rows:
            cw.writerow([row[k] for k in perm])
        p4 = os.path.join(tmp, 'hand.csv')
        with open(p4, 'w', encoding='utf-8', newline='') as f:
            f.write(('﻿' if variant != 1 else '') + buf.getvalue())
        try:
            r4 = read_csv(p4)
        except Exception as ex:
            check(False, 'C13 hand-written variant of the file does not load', detail=f'{type(ex).__name__} variant {variant}')
            return
        compare(w, r4, tasks, parent, f'hand-written variant')
    finally:
        inst.restore()
        shutil.rmtree(tmp, ignore_errors=True)


def compare(w, r, tasks, parent, what):
    src = list(w.tasks)
    got = list(r.tasks)
    if len(src) != len(got):
        check(False, 'C13 number of tasks differs ' + what, detail=f'{len(got)} vs {len(src)}')
        return
    items = []
    for a, b in zip(src, got):
        items.append((a.id == b.id, 'C13 task ids / order differ ' + what, None))
    check_all(items)
    pos = {id(t): k for k, t in enumerate(src)}
    gpos = {id(t): k for k, t in enumerate(got)}
    for a, b in zip(src, got):
        pa = pos[id(a.parent)] if a.parent is not None else None
        pb = gpos.get(id(b.parent)) if b.parent is not None else None
        check(pa == pb, 'C13 hierarchy differs ' + what, detail='parent')
        check([pos[id(c)] for c in a.children] == [gpos.get(id(c)) for c in b.children], 'C13 hierarchy differs ' + what, detail='sibling order')
        check([pos[id(c)] for c in a.predecessors] == [gpos.get(id(c)) for c in b.predecessors], 'C13 predecessor lists differ ' + what)
        check(same_text(a.name, b.name), 'C13 name differs ' + what, detail=repr(raw(a.name))[:30])
        check(same_text(a.resource, b.resource), 'C13 resource differs ' + what)
        check(a.start == b.start and a.end == b.end, 'C13 start/end differ ' + what, detail=f'{a.start} {a.end}')
        check(a.min_start == b.min_start, 'C13 min_start differs ' + what, detail=f'{a.min_start} -> {b.min_start!r}'[:60])
        items = []
        for f in ('estimate', 'spent'):
            x, y = getattr(a, f), getattr(b, f)
            if x is None or y is None:
                check(x is None and y is None, f'C13 {f} differs ' + what, detail='None')
            else:
                items.append((x == y, f'C13 {f} differs ' + what, None))
        ma, mb = a.milestone, b.milestone
        items.append(((ma == mb) if not (isinstance(ma, bool) and isinstance(mb, bool)) else (ma is mb), 'C13 milestone differs ' + what, None))
        check_all(items)
        for k in ('note', 'prio'):
            if k in a.__dict__:
                va = a.__dict__[k]
                vb = b.__dict__.get(k)
                check(same_text(None if va is None else str(va), None if vb is None else str(vb)),
                      'C13 custom attribute differs ' + what, detail=k)


def harnesses(tier):
    if tier == 'quick':
        return [{'name': 'roundtrip-n3', 'fn': h, 'cfg': {'n': 3, 'links': True}},
                {'name': 'roundtrip-n1', 'fn': h, 'cfg': {'n': 1}}]
    return [{'name': 'roundtrip-n4', 'fn': h, 'cfg': {'n': 4, 'adversarial': False}},
            {'name': 'roundtrip-n2', 'fn': h, 'cfg': {'n': 2}}]
