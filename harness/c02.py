"""C02 - forward schedules never start a task before its prerequisites are finished."""
from symx import check, check_all, And, Or, Not, dt
from harness import sched
from harness.sched import (setup, run_calc, View, day_of, prerequisites, ancestors, leaves_of, smax, MON)
from harness.sched_meta import *  # noqa

PROPERTY = 'C02'


def reached_early(P, i, p):
    """Signature of known finding KF-C02-1: prerequisite p of leaf i is inherited from an
    ancestor A, and i (or an ancestor of i below A) has a successor outside A's subtree -
    the forward pass can then reach i through that successor's predecessor link before
    A itself is visited."""
    chain = [i] + ancestors(P.parent, i)
    for k, a in enumerate(chain):
        declares = any(s == a and p in leaves_of(P, q) for q, s in P.links)
        if not declares:
            continue
        below = chain[:k]  # i and its ancestors below a
        sub_a = set(_subtree(P, a))
        for b in below:
            for q, s in P.links:
                if q == b and s not in sub_a:
                    return True
    return False


def _subtree(P, a):
    out = [a]
    for c in P.children[a]:
        out += _subtree(P, c)
    return out


def h(cfg):
    P, w, tasks = setup(cfg)
    cfg = P.cfg
    outside = None
    if cfg.get('outside_pred'):
        # a finished/dated task of ANOTHER WBS (or a free-standing one) as predecessor of a member
        from pjplan import WBS as _WBS, Task as _Task
        from symx import choose as _choose, fresh_int as _fi, dt as _dt, DAY_US as _D
        k = _choose('outside_to', P.n)
        x = _Task(77, 'outside', start=_dt(P.start_day - 2, 0), end=_dt(P.start_day + 2 + _choose('outside_end', 2), _fi('outside_end_us', 0, _D - 1)))
        if _choose('outside_in_wbs', 2):
            other = _WBS()
            other.roots.append(x)
        tasks[k].predecessors.append(x)
        outside = (k, x)
    sch, exc = run_calc(P, w)
    if exc is not None:
        check(True, 'C02 (not schedulable: ' + type(exc).__name__ + ')')
        return
    V = View(P, sch)
    items = []
    for i in range(P.n):
        if not P.leaf[i]:
            continue
        t = V.t[i]
        pre = prerequisites(P, i)
        if P.milestone[i]:
            items.append((t.start == t.end, 'C02 milestone with non-zero duration', None))
            if not pre:
                items.append((t.start == P.start, 'C02 milestone without prerequisites is not at the project start', None))
            else:
                latest = smax([V.t[p].end for p in pre])
                items.append((Or(t.start == latest, And(latest < P.start, t.start == P.start)),
                              'C02 milestone is not at the latest end of its prerequisites', None))
            continue
        if P.fstart[i] is not None:
            continue
        sday = day_of(t.start)
        days = V.days(i)
        first = min([sday] + days)
        check(first >= P.start_day, 'C02 task starts or works before the project start day')
        check(first >= P.clock_day, 'C02 task starts or works before the current day')
        if P.min_start[i] is not None:
            check(first >= day_of(P.min_start[i]), 'C02 task starts or works before its min_start day')
        if outside is not None and (outside[0] == i or outside[0] in ancestors(P.parent, i)):
            check(first >= day_of(outside[1].end), 'C02 task starts or works before the day a prerequisite ends',
                  detail='prerequisite outside the WBS')
        own = set()
        for q, s in P.links:
            if s == i:
                own.update(leaves_of(P, q))
        for p in pre:
            pend = V.t[p].end
            ok = first >= day_of(pend)
            if ok:
                check(True, 'C02 prerequisite respected')
            else:
                inherited = p not in own
                kf = inherited and reached_early(P, i, p)
                check(False, 'C02 task starts or works before the day a prerequisite ends',
                      detail=('inherited prerequisite' if inherited else 'own prerequisite') +
                             ('; task reached early through a successor link' if kf else ''))
    check_all(items)


INHERIT = dict(sched.PLAIN, n=4, fixed_parent=[-1, -1, 1, -1], link_pairs=[(0, 2), (1, 3), (0, 3)], E=8, scenarios=[(0, -1)])       # roots b, S{a}, x
INHERIT_B = dict(sched.PLAIN, n=4, fixed_parent=[-1, -1, -1, 2], link_pairs=[(0, 2), (1, 3), (0, 1)], E=8, scenarios=[(0, -1)])     # roots x, b, S{a}
SUMMARY_PRED = dict(sched.PLAIN, n=4, fixed_parent=[-1, 0, 0, -1], link_pairs=[(0, 3), (1, 2)], resources=['r', 'q'], E=8, scenarios=[(0, -1)])  # S{a, b}, x


# two levels of inherited prerequisites reached through links (roots X, S{L}, Q{P}, R)
NESTED = dict(sched.PLAIN, n=6, fixed_parent=[-1, -1, 1, -1, 3, -1], link_pairs=[(0, 2), (1, 4), (3, 5)], E=4, scenarios=[(0, -1)])


OUTSIDE = dict(sched.PLAIN, n=2, outside_pred=True, scenarios=[(0, -1)])


def harnesses(tier):
    hs = sched.standard_harnesses(h, tier, backward=False)
    for x in hs:
        if 'profiles' in x['cfg']:
            x['cfg'] = dict(x['cfg'], profiles=dict(x['cfg']['profiles'], **{'n4-inherited': INHERIT, 'n4-inherited-b': INHERIT_B, 'n4-summary-pred': SUMMARY_PRED, 'n6-nested': NESTED, 'n2-outside-pred': OUTSIDE}))
    if tier != 'quick':
        # two levels of inherited prerequisites reached through links (roots X, S{L}, Q{P}, R)
        hs.append({'name': 'forward-n6-nested-inheritance', 'fn': h,
                   'cfg': dict(sched.PLAIN, n=6, fixed_parent=[-1, -1, 1, -1, 3, -1], link_pairs=[(0, 2), (1, 4), (3, 5)], E=4,
                               scenarios=[(0, -1)])})
        hs.append({'name': 'forward-n4-inherited-b', 'fn': h,
                   'cfg': dict(sched.PLAIN, n=4, fixed_parent=[-1, 0, -1, -1], E=8, scenarios=[(0, -1), (4, 0)])})
    return hs
