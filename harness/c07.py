"""C07 - every scheduled task has start <= end; summaries roll up their children."""
from symx import check, check_all, And, Or, Not
from harness import sched
from harness.sched import setup, run_calc, View, smin, smax, fmt
from harness.sched_meta import *  # noqa

PROPERTY = 'C07'


def h(cfg):
    P, w, tasks = setup(cfg, backward=cfg.get('backward', False))
    sch, exc = run_calc(P, w)
    if exc is not None:
        check(True, 'C07 (not schedulable: ' + type(exc).__name__ + ')')
        return
    V = View(P, sch)
    items = []
    for i in range(P.n):
        t = V.t[i]
        kind = 'summary' if not P.leaf[i] else ('milestone' if P.milestone[i] else 'leaf')
        if t.start is None or t.end is None:
            check(False, 'C07 task without start/end', detail=kind)
            return
        items.append((t.start <= t.end, 'C07 start > end', kind))
        if not P.leaf[i]:
            ch = [V.t[c] for c in P.children[i]]
            items.append((t.start == smin([c.start for c in ch]), 'C07 summary start is not the earliest child start', None))
            items.append((t.end == smax([c.end for c in ch]), 'C07 summary end is not the latest child end', None))
            items.append((t.estimate == sum([c.estimate for c in ch], 0), 'C07 summary estimate is not the sum of its children', None))
            items.append((t.spent == sum([c.spent for c in ch], 0), 'C07 summary spent is not the sum of its children', None))
    ws, we = sch.schedule.start, sch.schedule.end
    items.append((ws == smin([t.start for t in V.t]), 'C07 WBS.start is not the earliest start', None))
    items.append((we == smax([t.end for t in V.t]), 'C07 WBS.end is not the latest end', None))
    check_all(items)


def harnesses(tier):
    return sched.standard_harnesses(h, tier)
