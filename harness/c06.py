"""C06 - scheduling is pure and deterministic in WBS, resources, start and clock."""
from symx import check, check_all, choose, assume, fresh_int, And, Or, Not, dt, DAY_US
from harness import sched
from harness.sched import setup, run_calc, View, day_of, MON
from harness.sched_meta import *  # noqa

PROPERTY = 'C06'

FIELDS = ('name', 'resource', 'start', 'end', 'estimate', 'spent', 'milestone', 'min_start', 'custom')


def same(a, b):
    """Unchanged value: same object, or equal plain values."""
    if a is b:
        return True
    if type(a) in (int, float, str, bool, type(None)) and type(b) in (int, float, str, bool, type(None)):
        return a == b and type(a) is type(b)
    return False


def snap_input(w, tasks):
    ix = {id(t): i for i, t in enumerate(tasks)}
    out = []
    for t in tasks:
        out.append({
            'id': t.id, 'fields': [t.__dict__.get(f) if f == 'custom' else getattr(t, f) for f in FIELDS],
            'attrs': sorted(k for k in t.__dict__ if not k.startswith('_')),
            'parent': ix.get(id(t.parent)) if t.parent is not None else None,
            'children': [ix.get(id(c), '?') for c in t.children],
            'preds': [ix.get(id(c), '?') for c in t.predecessors],
            'succs': [ix.get(id(c), '?') for c in t.successors],
            'wbs': t.wbs,
        })
    roots = [ix.get(id(c), '?') for c in w.roots]
    return out, roots, sorted(k for k in w.__dict__ if not k.startswith('_'))


def input_unchanged(a, b):
    sa, ra, wa = a
    sb, rb, wb = b
    if ra != rb or wa != wb:
        return 'roots or WBS attributes changed'
    for i, (x, y) in enumerate(zip(sa, sb)):
        for k in ('id', 'attrs', 'parent', 'children', 'preds', 'succs'):
            if x[k] != y[k]:
                return f'task {i}: {k} changed'
        if x['wbs'] is not y['wbs']:
            return f'task {i}: owner changed'
        for f, u, v in zip(FIELDS, x['fields'], y['fields']):
            if not same(u, v):
                return f'task {i}: field {f} changed'
    return None


def structure_equal(P, w, tasks, res):
    """Result WBS has the same ids, hierarchy, sibling order, links and custom attributes."""
    rt = list(res.tasks)
    if [t.id for t in rt] != [t.id for t in w.tasks]:
        return 'ids / order differ'
    by_id = {t.id: t for t in rt}
    for t in tasks:
        r = by_id[t.id]
        if r is t:
            return 'result shares a task object with the input'
        if r.wbs is not res:
            return 'result task does not report the result WBS as owner'
        if (t.parent.id if t.parent else None) != (r.parent.id if r.parent else None):
            return 'parent differs'
        if [c.id for c in t.children] != [c.id for c in r.children]:
            return 'children differ'
        if sorted(c.id for c in t.predecessors) != sorted(c.id for c in r.predecessors):
            return 'predecessors differ'
        if sorted(c.id for c in t.successors) != sorted(c.id for c in r.successors):
            return 'successors differ'
        if r.__dict__.get('custom') is not t.__dict__.get('custom') or r.name != t.name or r.resource != t.resource:
            return 'custom attribute / name / resource differ'
        ins = set(id(x) for x in tasks)
        for lst_in, lst_out in ((t.predecessors, r.predecessors), (t.successors, r.successors)):
            out_in = sorted(id(x) for x in lst_in if id(x) not in ins)
            res_ids = set(id(x) for x in rt)
            out_out = sorted(id(x) for x in lst_out if id(x) not in res_ids)
            if out_in != out_out:
                return 'links to tasks outside the WBS are not kept on the same outside tasks'
    if [c.id for c in res.roots] != [c.id for c in w.roots]:
        return 'roots differ'
    return None


def same_result(P, a, b, items, what, clocks=None):
    Va, Vb = View(P, a), View(P, b)
    if clocks is not None:
        # KF-C06-1 (= KF-C08-1): an end that calc clamped to the clock value (max(end, now)) on the start day
        clamped = Or(*([Va.t[j].end == clocks[0] for j in range(P.n)] + [Vb.t[j].end == clocks[1] for j in range(P.n)]))
        for i in range(P.n):
            check(And(Va.t[i].start == Vb.t[i].start, Va.t[i].end == Vb.t[i].end), 'C06 dates differ ' + what,
                  known=[('KF-C06-1', clamped)])
    else:
        for i in range(P.n):
            items.append((And(Va.t[i].start == Vb.t[i].start, Va.t[i].end == Vb.t[i].end), 'C06 dates differ ' + what, None))
    ra = [(i, day_of(r.date)) for i in range(P.n) for r in Va.by_task[i]]
    rb = [(i, day_of(r.date)) for i in range(P.n) for r in Vb.by_task[i]]
    if sorted(ra) != sorted(rb):
        check(False, 'C06 usage rows differ ' + what, detail='row days')
        return
    for i in range(P.n):
        for x, y in zip(sorted(Va.by_task[i], key=lambda r: day_of(r.date)), sorted(Vb.by_task[i], key=lambda r: day_of(r.date))):
            items.append((x.units == y.units, 'C06 usage rows differ ' + what, 'units'))


def h(cfg):
    P, w, tasks = setup(cfg, backward=cfg.get('backward', False))
    cfg = P.cfg
    for i, t in enumerate(tasks):
        t.custom = ('marker', i)
    w.wbs_attr = 'x'
    outside = None
    if cfg.get('outside_same_id'):
        # a predecessor from another project whose id equals the id of a member
        k = choose('outside_to', P.n)
        from pjplan import Task
        outside = Task(tasks[(k + 1) % P.n].id, 'outside', start=dt(P.start_day - 9, 0), end=dt(P.start_day - 8 + 10 * choose('outside_late', 2), 0))
        tasks[k].predecessors.append(outside)
    before = snap_input(w, tasks)
    res = sched.make_resources(P)
    from symx.stubs import clock_and_dates
    from pjplan import ForwardScheduler, BackwardScheduler

    def mk():
        if P.backward:
            return BackwardScheduler(end=P.start, resources=sched.make_resources(P), balance_resources=P.balance,
                                     default_estimate=P.default_estimate)
        return ForwardScheduler(start=P.start, resources=sched.make_resources(P), balance_resources=P.balance,
                                default_estimate=P.default_estimate)

    clock2 = None
    if cfg.get('two_clocks'):
        assume(P.clock <= P.start)
        clock2 = dt(P.start_day - cfg['two_clocks'][0], fresh_int('clock2_us', 0, DAY_US - 1))
        assume(clock2 <= P.start)
    s1 = s2 = s3 = s4 = None
    try:
        with clock_and_dates(P.clock):
            sc = mk()
            s1 = sc.calc(w)
            mid = snap_input(w, tasks)
            s2 = sc.calc(w)
            s3 = mk().calc(w)
        if clock2 is not None:
            with clock_and_dates(clock2):
                s4 = mk().calc(w)
    except RecursionError:
        check(True, 'C06 (not schedulable)')
        return
    except RuntimeError:
        d = input_unchanged(before, snap_input(w, tasks))
        check(d is None, 'C06 calc changed its input WBS', detail=str(d) + ' (calc raised)')
        return
    d = input_unchanged(before, mid)
    check(d is None, 'C06 calc changed its input WBS', detail=str(d))
    d = input_unchanged(before, snap_input(w, tasks))
    check(d is None, 'C06 calc changed its input WBS', detail=str(d) + ' (after repeated calls)')
    d = structure_equal(P, w, tasks, s1.schedule)
    check(d is None, 'C06 result WBS differs structurally from the input', detail=str(d))
    check(s1.schedule is not w, 'C06 result is the input WBS object')
    check(s1.schedule.__dict__.get('wbs_attr') == 'x', 'C06 WBS attribute not carried to the result')
    items = []
    for t in s1.schedule.tasks:
        check(t.start is not None and t.end is not None, 'C06 result task without start or end')
    same_result(P, s1, s2, items, 'between two calls on the same scheduler')
    same_result(P, s1, s3, items, 'between a used and a fresh scheduler')
    if s4 is not None:
        same_result(P, s1, s4, items, 'between two clocks not later than the project start', clocks=(P.clock, clock2))
    check_all(items)


PL = sched.PLAIN
QUICK_F = {
    'n3-plain': dict(PL, n=3, scenarios=[(5, 1)]),
    'n3-two-clocks': dict(PL, n=3, two_clocks=[2], link_pairs=[(0, 1), (1, 2)], scenarios=[(4, 0)]),
    'n2-two-clocks-features': dict(PL, n=2, two_clocks=[0], milestones=True, min_start=True, dates_on=1, balance=[True],
                                   scenarios=[(2, 0)]),
    'n2-fixed': dict(PL, n=2, fixed=True, fixed_offsets=[-2, 1], dates_on=0, scenarios=[(1, 0)]),
    'n2-resources': dict(PL, n=2, resources=['r', 'q'], calendars=['sparse'], two_clocks=[1], scenarios=[(5, 0)]),
    'n2-unbalanced': dict(PL, n=2, balance=[False], two_clocks=[1], scenarios=[(0, -1)]),
    'n3-summary-values': dict(PL, n=3, summary_values=True, links=False, scenarios=[(2, -1)]),
    'n2-fixed-two-clocks': dict(PL, n=2, fixed=True, fixed_offsets=[-4], dates_on=0, two_clocks=[2], scenarios=[(2, -1)]),
    'n2-outside-same-id': dict(PL, n=2, outside_same_id=True, two_clocks=[1], scenarios=[(1, -1)]),
}
QUICK_B = {
    'n3-plain': dict(PL, n=3, scenarios=[(0, -1)]),
    'n3-summary-values': dict(PL, n=3, summary_values=True, links=False, scenarios=[(2, -1)]),
    'n2-outside-same-id': dict(PL, n=2, outside_same_id=True, scenarios=[(1, -1)]),
    'n2-features': dict(PL, n=2, milestones=True, balance=[True, False], resources=['r', 'q'], calendars=['default', 'sparse'],
                        scenarios=[(2, -1)]),
}


def harnesses(tier):
    if tier == 'quick':
        return [{'name': 'forward-quick', 'fn': h, 'cfg': {'profiles': QUICK_F, 'n': 0}},
                {'name': 'backward-quick', 'fn': h, 'cfg': {'profiles': QUICK_B, 'n': 0, 'backward': True}}]
    out = []
    for k in ('n3-features', 'n3-dates', 'n3-none-values', 'n3-all-links', 'n4-links'):
        out.append({'name': 'forward-' + k, 'fn': h, 'cfg': dict(sched.FWD_THOROUGH_PROFILES[k], two_clocks=[1], scenarios=[(0, -1)])})
    out.append({'name': 'forward-quick-profiles', 'fn': h, 'cfg': {'profiles': QUICK_F, 'n': 0}})
    for k in ('n3-features', 'n3-none-values', 'n4-links'):
        out.append({'name': 'backward-' + k, 'fn': h, 'cfg': dict(sched.BWD_THOROUGH_PROFILES[k], backward=True)})
    out.append({'name': 'backward-quick-profiles', 'fn': h, 'cfg': {'profiles': QUICK_B, 'n': 0, 'backward': True}})
    return out
