"""C11 - Task.wbs always tells the truth about WBS membership."""
from harness import graph
from harness.graph_meta import *  # noqa

PROPERTY = 'C11'


def harnesses(tier):
    if tier == 'quick':
        return [
            {'name': 'assign-seq3-N3-W1', 'fn': graph.h_step,
             'cfg': {'prop': 'C11', 'N': 3, 'nW': 1, 'seqlen': 3, 'links': False, 'ops': ['set_children']}},
            {'name': 'earlier-view-N2', 'fn': graph.h_stale_view, 'cfg': {'N': 2, 'nW': 1, 'props': ['C11'], 'ops1': ['ch_remove', 'wbs_remove', 'set_parent'], 'ops2': ['ch_sort', 'ch_reorder', 'ch_insert', 'ch_move', 'ch_remove']}},
            {'name': 'attach-N3-W2', 'fn': graph.h_step,
             'cfg': {'prop': 'C11', 'N': 3, 'nW': 2, 'seqlen': 2, 'ops': graph.ATTACH_OPS}},
            {'name': 'remove-attach-N3', 'fn': graph.h_remove_attach, 'cfg': {'N': 3, 'seqlen': 2}},
        ]
    return [
        {'name': 'earlier-view-N3', 'fn': graph.h_stale_view, 'cfg': {'N': 3, 'nW': 1, 'props': ['C11'], 'ops1': ['ch_remove', 'wbs_remove', 'set_parent'], 'ops2': ['ch_sort', 'ch_reorder', 'ch_insert', 'ch_move', 'ch_remove']}},
        {'name': 'step-N3-W2-all', 'fn': graph.h_step,
         'cfg': {'prop': 'C11', 'N': 3, 'nW': 2, 'seqlen': 3, 'ops': graph.ALL_OPS}},
        {'name': 'attach-N4-W1', 'fn': graph.h_step,
         'cfg': {'prop': 'C11', 'N': 4, 'nW': 1, 'seqlen': 1, 'ops': graph.ATTACH_OPS}},
        {'name': 'remove-attach-N4', 'fn': graph.h_remove_attach, 'cfg': {'N': 4, 'seqlen': 2, 'links': False}},
    ]
