from harness import graph
from harness.graph_meta import *  # noqa

PROPERTY = 'C15'


def harnesses(tier):
    if tier == 'quick':
        return [
            {'name': 'earlier-link-view-N3', 'fn': graph.h_stale_link_view, 'cfg': {'N': 3, 'nW': 0, 'flat': True, 'props': ['C15'], 'ops1': ['set_preds', 'set_succs', 'pred_append', 'succ_append', 'pred_remove']}},
            {'name': 'assign-seq3-N3-W1', 'fn': graph.h_step,
             'cfg': {'prop': 'C15', 'N': 3, 'nW': 1, 'seqlen': 3, 'links': False, 'ops': ['set_children']}},
            {'name': 'sort-incomparable-key-N4', 'fn': graph.h_step,
             'cfg': {'prop': 'C15', 'N': 4, 'nW': 1, 'seqlen': 1, 'links': False, 'none_key': True, 'ops': ['ch_sort']}},
            {'name': 'earlier-view-N2', 'fn': graph.h_stale_view, 'cfg': {'N': 2, 'nW': 1, 'props': ['C15'], 'ops1': ['ch_remove', 'wbs_remove', 'set_parent'], 'ops2': ['ch_sort', 'ch_reorder', 'ch_insert', 'ch_move', 'ch_remove']}},
            {'name': 'step-N3-W1', 'fn': graph.h_step,
             'cfg': {'prop': 'C15', 'N': 3, 'nW': 1, 'seqlen': 2, 'ops': graph.ALL_OPS}},
        ]
    return [
        {'name': 'earlier-link-view-N3-W1', 'fn': graph.h_stale_link_view, 'cfg': {'N': 3, 'nW': 1, 'props': ['C15'], 'ops1': ['set_preds', 'set_succs', 'pred_append', 'succ_append', 'pred_remove', 'succ_remove', 'lshift', 'rshift']}},
        {'name': 'earlier-view-N3', 'fn': graph.h_stale_view, 'cfg': {'N': 3, 'nW': 1, 'props': ['C15'], 'ops1': ['ch_remove', 'wbs_remove', 'set_parent'], 'ops2': ['ch_sort', 'ch_reorder', 'ch_insert', 'ch_move', 'ch_remove']}},
        {'name': 'step-N3-W2', 'fn': graph.h_step,
         'cfg': {'prop': 'C15', 'N': 3, 'nW': 2, 'seqlen': 3, 'ops': graph.ALL_OPS}},
        {'name': 'step-N4-W1-hierarchy-ops', 'fn': graph.h_step,
         'cfg': {'prop': 'C15', 'N': 4, 'nW': 1, 'seqlen': 1, 'ops': graph.HIER_OPS}, 'deadline_s': 3000},
        {'name': 'step-N4-W1-link-ops', 'fn': graph.h_step,
         'cfg': {'prop': 'C15', 'N': 4, 'nW': 1, 'seqlen': 1, 'ops': graph.LINK_OPS + ['list_lshift', 'list_rshift']}},
    ]
