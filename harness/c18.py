"""C18 - task queries select exactly the matching tasks; bulk operations touch only those."""
import itertools
import re
import zlib

import z3

from symx import (check, check_all, choose, assume, note, fresh_int, And, Or, Not, Iff, is_native, core)
from symx import xre
from symx.xre import fresh_text, SymText
from symx.stubs import _Installed

from pjplan import Task, WBS

PROPERTY = 'C18'
LEVEL = 'other'
EXPLANATION = ('Bounded symbolic execution of the task-list query code (_ImmutableTaskList.__call__, __setattr__, remove_all) '
               'with SMT: attribute values are symbolic ints or bounded symbolic texts (length <= 2/3, symbolic code points), '
               'filter right-hand sides are symbolic; every comparison inside pjplan is a solver decision; regular-expression '
               'filters run on an NFA unrolling of the concrete pattern over the symbolic characters (validated against re on '
               'all short strings at the start of every run). For every task the solver decides membership <=> reference predicate.')
RULE = ('one evaluation = one symbolic path (population present/absent/None per task, filter kind and pattern forked; values, '
        'right-hand sides and characters symbolic)')
BOUNDS = {'quick': {'tasks': 3, 'text_length': '<=2 over code points a..c', 'patterns': 'menu'},
          'thorough': {'tasks': 4, 'text_length': '<=3'}}
OUTSIDE = ['the regex engine itself (modelled; patterns outside literals, classes, ., * + ? {m,n}, |, groups, ^ $ are not used)',
           'attribute values of mixed types', 'texts longer than the bound']
STUBS = ['re in pjplan.task -> symx.xre.ReShim (NFA unrolling for symbolic texts, real re otherwise)']
ASSUMPTIONS = ['the NFA model agrees with re.search (validated differentially in harness regex-model-validation)']

PATTERNS = ['a', '^a', 'b$', 'a.', 'a|b', 'ab*', '[ab]c', '^$', 'a+b?', '^(ab|c)+$', '[^a]']
INT_FILTERS = ['eq', 'ne', 'lt', 'le', 'gt', 'ge', 'in', 'not_in', 'is_none', 'is_not_none']


def population(name, i, kind):
    """absent / None / value"""
    k = choose(f'{name}{i}', 3)
    if k == 0:
        return 'absent', None
    if k == 1:
        return 'none', None
    if kind == 'int':
        return 'value', fresh_int(f'{name}v{i}', -5, 5)
    return 'value', fresh_text(f'{name}v{i}', 2)


def getv(state):
    st, v = state
    return None if st != 'value' else v


def ref_filter(kind, val, rhs):
    """Reference predicate from the statement.  val: attribute value or None (absent or None)."""
    if kind == 'eq':
        if val is None or rhs is None:
            return val is None and rhs is None
        return val == rhs
    if kind == 'is_none':
        return val is None
    if kind == 'is_not_none':
        return val is not None
    if kind == 'in':
        return Or(*[(val is None and r is None) if (val is None or r is None) else (val == r) for r in rhs]) if rhs else False
    if kind == 'not_in':
        return Not(ref_filter('in', val, rhs))
    if val is None:
        return False  # lacking the attribute never satisfies a comparison or pattern filter
    if kind == 'ne':
        return val != rhs
    if kind == 'lt':
        return val < rhs
    if kind == 'le':
        return val <= rhs
    if kind == 'gt':
        return val > rhs
    if kind == 'ge':
        return val >= rhs
    if kind == 'like':
        return xre.search(rhs, val)
    if kind == 'not_like':
        return Not(xre.search(rhs, val))
    raise ValueError(kind)


def kw(attr, kind):
    return attr if kind == 'eq' else f'{attr}_{kind}_'


def build(cfg):
    n = cfg['n']
    parent = [-1] * n
    if cfg.get('hierarchy'):
        for i in range(1, n):
            parent[i] = [-1, i - 1][choose(f'par{i}', 2)]
    ids = [fresh_int(f'id{i}', -5, 5) for i in range(n)]
    if not is_native():
        core.ctx().add(z3.Distinct(*[x.e for x in ids]))
    tasks = [Task(ids[i], f't{i}') for i in range(n)]
    w = WBS()
    for i in range(n):
        if parent[i] == -1:
            w.roots.append(tasks[i])
        else:
            tasks[parent[i]].children.append(tasks[i])
    return parent, ids, tasks, w


def snapshot(tasks, w):
    ix = {id(t): i for i, t in enumerate(tasks)}
    return ([(ix.get(id(t.parent)) if t.parent is not None else None, [ix.get(id(c)) for c in t.children],
              sorted((k, id(v)) for k, v in t.__dict__.items() if not k.startswith('_Task')), t.wbs is w) for t in tasks],
            [ix.get(id(c)) for c in w.roots])


def h(cfg):
    parent, ids, tasks, w = build(cfg)
    n = len(tasks)
    family = cfg['family'][choose('family', len(cfg['family']))]
    pops = []
    filt_desc = ''
    refs = []  # per task reference predicate
    kwargs = {}
    key = None
    if family == 'int':
        for i, t in enumerate(tasks):
            st = population('prio', i, 'int')
            pops.append(st)
            if st[0] == 'none':
                t.prio = None
            elif st[0] == 'value':
                t.prio = st[1]
        kind = INT_FILTERS[choose('kind', len(INT_FILTERS))]
        if kind in ('in', 'not_in'):
            rhs = [fresh_int('rhs0', -5, 5), fresh_int('rhs1', -5, 5)][:1 + choose('nrhs', 2)]
            if choose('rhs_none', 2):
                rhs = rhs + [None]
        elif kind in ('is_none', 'is_not_none'):
            rhs = True
        elif kind == 'eq' and choose('eq_none', 2):
            rhs = None
        else:
            rhs = fresh_int('rhs', -5, 5)
        kwargs[kw('prio', kind)] = rhs
        refs = [ref_filter(kind, getv(st), rhs) for st in pops]
        filt_desc = f'prio {kind}'
        if cfg.get('second') and choose('second', 2):
            q = fresh_int('q', -5, 5)
            kwargs['id_ge_'] = q
            refs = [And(r, ids[i] >= q) if not isinstance(r, bool) or r else False for i, r in enumerate(refs)]
            filt_desc += ' and id_ge_'
    elif family == 'text':
        for i, t in enumerate(tasks):
            st = population('res', i, 'text')
            pops.append(st)
            if st[0] == 'absent':
                del t.__dict__['resource']
            elif st[0] == 'none':
                t.resource = None
            else:
                t.resource = st[1]
        kind = ['like', 'not_like', 'eq', 'lt', 'ne', 'ge'][choose('tkind', 6)]
        if kind in ('like', 'not_like'):
            rhs = PATTERNS[choose('pattern', len(PATTERNS))]
        else:
            rhs = fresh_text('rhs', 2)
        kwargs[kw('resource', kind)] = rhs
        refs = [ref_filter(kind, getv(st), rhs) for st in pops]
        filt_desc = f'resource {kind} {rhs if isinstance(rhs, str) else ""}'
    elif family == 'structure':
        sub = choose('skind', 4)
        q = fresh_int('q', -6, 6)
        if sub == 0:
            kwargs['parent_id'] = q
            refs = [(ids[parent[i]] == q) if parent[i] != -1 else False for i in range(n)]
            filt_desc = 'parent_id'
        elif sub == 1:
            kwargs['id'] = q
            refs = [ids[i] == q for i in range(n)]
            filt_desc = 'id'
        elif sub == 2:
            q2 = fresh_int('q2', -6, 6)
            kwargs['id_in_'] = [q, q2]
            refs = [Or(ids[i] == q, ids[i] == q2) for i in range(n)]
            filt_desc = 'id_in_'
        else:
            key = lambda t: t.id > q
            refs = [ids[i] > q for i in range(n)]
            filt_desc = 'callable'
    elif family == 'nofilter':
        # a call without any filter selects every task of the list; on a children list remove_all() then removes all of them
        filt_desc = 'no filter'
        pi = [i for i in range(n) if any(parent[c] == i for c in range(n))]
        owner = tasks[pi[choose('owner', len(pi))]] if pi and choose('on_children', 2) else None
        lst0 = owner.children if owner is not None else w.roots
        members = [t for t in lst0]
        note('desc', f'n={n} parent={parent} family=nofilter list={"children of t%d" % tasks.index(owner) if owner else "roots"}')
        note('class', zlib.crc32(f'{parent}{tasks.index(owner) if owner else -1}'.encode()))
        sel = lst0()
        check([id(t) for t in sel] == [id(t) for t in members], 'C18 query without filters does not return every task of the list')
        mode = choose('bulk', 2)
        if mode == 0:
            sel.flag = 'x'
            check(all(t.__dict__.get('flag') == 'x' for t in members) and
                  all(('flag' in t.__dict__) == (t in members) for t in tasks), 'C18 bulk assignment touched the wrong tasks')
        else:
            removed = (owner.children if owner is not None else w.roots).remove_all()
            check([id(t) for t in removed] == [id(t) for t in members], 'C18 remove_all does not return exactly the matching tasks',
                  detail='no filter')
            check(len(owner.children if owner is not None else w.roots) == 0,
                  'C18 remove_all did not remove exactly the matching tasks with their subtrees', detail='no filter')
            check([id(t) for t in sel] == [id(t) for t in members], 'C18 query result changed by a later removal')
        return
    desc = f'n={n} parent={parent} family={family} filter={filt_desc} population={[p[0] for p in pops]}'
    note('desc', desc)
    note('class', zlib.crc32(desc.encode()))
    inst = _Installed()
    inst.set('pjplan.task', 're', xre.ReShim())
    try:
        lst = w.tasks
        order = list(lst)
        ix = {id(t): i for i, t in enumerate(tasks)}
        before = snapshot(tasks, w)
        try:
            res = lst(key, **kwargs) if key is not None else lst(**kwargs)
        except Exception as ex:
            check(False, 'C18 query raised', detail=f'{type(ex).__name__} {filt_desc}')
            return
        got = [ix.get(id(t)) for t in res]
        check(before == snapshot(tasks, w), 'C18 query changed something')
        items = []
        for t in order:
            i = ix[id(t)]
            member = i in got
            r = refs[i]
            items.append((r if member else Not(r), 'C18 query result differs from the filter semantics',
                          f'{filt_desc}: ' + ('non-matching task returned' if member else 'matching task missing') + f' ({pops[i][0] if pops else ""})'))
        check_all(items)
        check(got == [i for i in [ix[id(t)] for t in order] if i in got] and len(set(got)) == len(got),
              'C18 query result is not in list order / has duplicates')
        # bulk assignment on the result touches exactly the selected tasks
        mode = choose('bulk', 3)
        if mode == 1:
            marker = ('marker',)
            res.flag = marker
            for t in tasks:
                i = ix[id(t)]
                has = t.__dict__.get('flag') is marker
                check(has == (i in got), 'C18 bulk assignment touched the wrong tasks')
        elif mode == 2:
            try:
                removed = w.remove_all(key, **kwargs) if key is not None else w.remove_all(**kwargs)
            except Exception as ex:
                check(False, 'C18 remove_all raised', detail=type(ex).__name__)
                return
            rem = [ix.get(id(t)) for t in removed]
            check(rem == got, 'C18 remove_all does not return exactly the matching tasks', detail=f'{filt_desc}')
            left = [ix[id(t)] for t in w.tasks]
            gone = set()
            for g in got:
                gone.add(g)
                for j in range(n):
                    a = j
                    while parent[a] != -1:
                        a = parent[a]
                        if a == g:
                            gone.add(j)
            check(left == [i for i in [ix[id(t)] for t in order] if i not in gone],
                  'C18 remove_all did not remove exactly the matching tasks with their subtrees', detail=f'{filt_desc}')
    finally:
        inst.restore()


def h_regex_model(cfg):
    """Differential validation of the NFA model against re.search on all strings <= 3 over a..c,1."""
    k = choose('pattern', len(PATTERNS))
    p = PATTERNS[k]
    note('desc', 'regex model vs re: ' + p)
    note('class', k)
    bad = []
    for L in range(4):
        for s in itertools.product('abc\n', repeat=L):
            s = ''.join(s)
            if '\n' in s and L > 2:
                continue
            t = SymText([ord(c) for c in s])
            r = xre.search(p, t)
            if not isinstance(r, bool):
                r = z3.is_true(z3.simplify(r.e))
            if r != (re.search(p, s) is not None) and '\n' not in s:
                bad.append(s)
    check(not bad, 'REGEX-MODEL differs from re.search', detail=f'{p}: {bad[:3]}')


def harnesses(tier):
    if tier == 'quick':
        return [
            {'name': 'regex-model-validation', 'fn': h_regex_model, 'cfg': {}},
            {'name': 'int-n3', 'fn': h, 'cfg': {'n': 3, 'family': ['int'], 'second': True}},
            {'name': 'text-n2', 'fn': h, 'cfg': {'n': 2, 'family': ['text']}},
            {'name': 'structure-n3', 'fn': h, 'cfg': {'n': 3, 'family': ['structure', 'nofilter'], 'hierarchy': True}},
        ]
    return [
        {'name': 'regex-model-validation', 'fn': h_regex_model, 'cfg': {}},
        {'name': 'int-n4', 'fn': h, 'cfg': {'n': 4, 'family': ['int'], 'second': True, 'hierarchy': True}},
        {'name': 'text-n3', 'fn': h, 'cfg': {'n': 3, 'family': ['text']}},
        {'name': 'structure-n4', 'fn': h, 'cfg': {'n': 4, 'family': ['structure', 'nofilter'], 'hierarchy': True}},
    ]
