"""C09 - backward schedules meet deadline and dependencies, as late as capacity allows."""
from symx import check, check_all, And, Or, Not, dt
from harness import sched
from harness.sched import (setup, run_calc, View, day_of, us_of, capacity, prerequisites, dependents, leaves_of,
                           hours_td, approx_eq, row_index, booked, smin, MON)
from harness.sched_meta import *  # noqa

PROPERTY = 'C09'


def subtree(P, a):
    out = [a]
    for c in P.children[a]:
        out += subtree(P, c)
    return out


def h(cfg):
    P, w, tasks = setup(cfg, backward=True)
    sch, exc = run_calc(P, w)
    if exc is not None:
        check(True, 'C09 (not schedulable: ' + type(exc).__name__ + ')')
        return
    V = View(P, sch)
    rix = row_index(V)
    items = []
    deadline = P.start
    for i in range(P.n):
        items.append((V.t[i].end <= deadline, 'C09 task ends after the requested project end', None))
    # dependencies, declared or inherited
    for p, s in P.links:
        for x in subtree(P, p):
            for y in subtree(P, s):
                items.append((V.t[x].end <= V.t[y].start, 'C09 predecessor ends after its successor starts',
                              'declared' if (x == p and y == s) else 'inherited'))
    check_all(items)
    items = []
    for i in range(P.n):
        if not P.leaf[i] or P.milestone[i]:
            continue
        t = V.t[i]
        nm = P.res[i]
        rows = V.by_task[i]
        days = V.days(i)
        succ = dependents(P, i)
        due = smin([V.t[s].start for s in succ]) if succ else deadline
        if P.balance:
            for d in range(day_of(t.end) + 1, day_of(due)):
                cap = capacity(P, nm, d)
                if cap > 0:
                    items.append((booked(V, P, nm, d) == cap, 'C09 idle capacity between the task end and its due date',
                                  f'MON+{d - MON}'))
            if days:
                for d in range(min(days) + 1, max(days)):
                    cap = capacity(P, nm, d)
                    if cap > 0:
                        items.append((booked(V, P, nm, d) == cap, 'C09 idle capacity between first and last work day', None))
        if rows:
            F = min(days)
            rF = [r for r in rows if day_of(r.date) == F][0]
            capF = capacity(P, nm, F)
            through = booked(V, P, nm, F, rix[id(rF)], include=True) if P.balance else rF.units
            items.append((approx_eq(t.start, dt(F + 1, 0) - hours_td(24 * (through / capF))),
                          'C09 start does not encode the share booked up to and including the task', None))
            # computed end: midnight following its day minus the share booked before the task was placed
            first_row = min(rix[id(r)] for r in rows)
            if bool(us_of(t.end) == 0):
                d = day_of(t.end) - 1
            else:
                d = day_of(t.end)
            capd = capacity(P, nm, d)
            if capd > 0:
                before = booked(V, P, nm, d, first_row, include=False) if P.balance else 0
                items.append((approx_eq(t.end, dt(d + 1, 0) - hours_td(24 * (before / capd))),
                              'C09 end does not encode the share booked before the task was placed', None))
            else:
                check(False, 'C09 end lies on a day without capacity')
    check_all(items)


INHERIT = dict(sched.PLAIN, n=4, fixed_parent=[-1, -1, 1, -1], link_pairs=[(0, 1), (2, 3), (0, 3)], resources=['r', 'q'], E=8, scenarios=[(0, -1)])
INHERIT_B = dict(sched.PLAIN, n=4, fixed_parent=[-1, -1, -1, 2], link_pairs=[(1, 2), (0, 3), (0, 1)], resources=['r', 'q'], E=8, scenarios=[(0, -1)])
SUMMARY_SUCC = dict(sched.PLAIN, n=4, fixed_parent=[-1, -1, 1, 1], link_pairs=[(0, 1), (2, 3)], resources=['r', 'q'], E=8, scenarios=[(0, -1)])


def harnesses(tier):
    hs = sched.standard_harnesses(h, tier, forward=False)
    for x in hs:
        if 'profiles' in x['cfg']:
            x['cfg'] = dict(x['cfg'], profiles=dict(x['cfg']['profiles'], **{'n4-inherited': INHERIT, 'n4-inherited-b': INHERIT_B,
                                                                             'n4-summary-succ': SUMMARY_SUCC}))
    return hs
