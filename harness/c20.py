"""C20 - printed sheets list each visible task once, indented by depth, columns aligned."""
import contextlib
import datetime as _real
import io
import re
import zlib

from symx import check, check_all, choose, assume, note, fresh_int, And, Or, Not, is_native
from symx import xstr
from symx.xstr import fresh_str, xlen, split_lines, seg_len, segments
from symx.stubs import _Installed

from pjplan import Task, WBS, Resource
from pjplan.task import _Repr
from pjplan.schedule import ResourceUsageReport, ResourceUsageRow

PROPERTY = 'C20'
LEVEL = 'other'
EXPLANATION = ('Bounded symbolic execution of the text renderers (_Repr.repr, TextTable, ResourceUsageReport.__repr__) with '
               'SMT over string lengths: names, resources, custom values and resource names are strings of UNBOUNDED symbolic '
               'length (ropes; content uninterpreted, no newline/escape), builtin len is shadowed in pjplan.utils/pjplan.task '
               'so that every max()/padding decision of the table code is a solver decision; on the produced rope the solver '
               'is asked whether two lines or two cells of one column can differ in width (LIA, unsat = aligned for all lengths).')
RULE = ('one evaluation = one symbolic path (shape, which values are None/present, field selection, children flag, theme, '
        'entry point forked; all string lengths symbolic and unbounded; path = one ordering of the competing lengths)')
BOUNDS = {'quick': {'tasks': '<=3 + 1 outside task', 'string_lengths': 'unbounded symbolic (>= 0)', 'fields': 'menu of selections incl. unknown names'},
          'thorough': {'tasks': '<=4 + 1 outside task'}}
OUTSIDE = ['strings containing newlines or escape sequences', 'terminal rendering of wide/combining characters (len counts code points)',
           'more than 4 tasks']
STUBS = ['builtin len in pjplan.utils and pjplan.task -> symx.xstr.xlen (identical on ordinary values)',
         "' ' * SymInt -> pad token of symbolic length max(n, 0)"]
ASSUMPTIONS = ['str methods used by the renderers (+, join, upper, format) move the opaque tokens unchanged - validated by native replay']

ESC = '\033['
CODE = re.compile(r'\x1b\[\d+(?::\d+m)?m?')
IDS = [0, -7, 123456, 5, 31, 44, 50, 61, 72, 83, 94, 105]
FIELD_MENU = [
    None,
    ['id', 'name'],
    ['name', 'id', 'bogus'],
    ['id', 'name', 'resource', 'predecessors', 'successors', 'parent'],
    ['NAME', 'note', 'estimate', 'start'],
    ['predecessors'],
]
DEFAULT_FIELDS = ['id', 'name', 'resource', 'estimate', 'spent', 'start', 'end', 'predecessors']
THEMES = [None, {'header_color': '92m', 'level_colors': ['93m']}, {'level_colors': []},
          {'header_color': None, 'level_colors': [None, '93m']}]


# (field selection, children shown, theme, entry point): every value of every dimension occurs, not the full product
SCENARIOS = [(0, True, 0, 0), (1, True, 1, 0), (2, False, 0, 1), (3, True, 0, 0), (3, False, 2, 2), (4, True, 0, 3),
             (5, True, 1, 1), (1, False, 2, 3), (2, True, 0, 2), (4, False, 1, 0), (0, True, 2, 1), (3, True, 1, 3),
             (1, True, 3, 0), (3, True, 3, 2)]


def strip_codes(raw):
    return CODE.sub('', raw)


def gen(cfg):
    n = cfg['n']
    parent = [-1] * n
    for i in range(1, n):
        if cfg.get('chain'):  # one chain of nested summaries: depth n - 1
            parent[i] = i - 1
            continue
        cands = [-1]
        j = i - 1
        while j != -1:
            cands.append(j)
            j = parent[j]
        parent[i] = cands[choose(f'par{i}', len(cands))]
    tasks = []
    for i in range(n):
        pops = cfg.get('pops', [(1, 1, 0), (0, 1, 1), (1, 0, 1), (0, 0, 0)])
        pop = pops[choose(f'pop{i}', len(pops))]
        nm = fresh_str(f'name{i}') if pop[0] else None
        rs = fresh_str(f'res{i}') if pop[1] else None
        t = Task(IDS[i], nm, resource=rs, estimate=[None, 3, 2.5][i % 3],
                 start=_real.datetime(2024, 1, 1 + i, 9, 30) if i % 2 == 0 else None)
        if pop[2]:
            t.note = fresh_str(f'note{i}')
        tasks.append(t)
    w = WBS()
    for i in range(n):
        if parent[i] == -1:
            w.roots.append(tasks[i])
        else:
            tasks[parent[i]].children.append(tasks[i])
    ext = None
    lk = choose('links', 3)  # 0 none, 1 internal link, 2 link to a task outside the WBS
    links = []
    if lk == 1 and n >= 2:
        a, b = 0, n - 1
        anc = []
        x = b
        while parent[x] != -1:
            x = parent[x]
            anc.append(x)
        if a not in anc:
            tasks[b].predecessors.append(tasks[a])
            links.append((a, b))
    elif lk == 2:
        ext = Task(999, 'outside')
        tasks[n - 1].predecessors.append(ext)
    return parent, tasks, w, links, ext


def depth_of(parent, i):
    d = 0
    while parent[i] != -1:
        i = parent[i]
        d += 1
    return d


def dfs(parent, roots, children=True):
    out = []

    def rec(i):
        out.append(i)
        if children:
            for c in range(len(parent)):
                if parent[c] == i:
                    rec(c)

    for r in roots:
        rec(r)
    return out


def link_cell(task, others):
    return '[' + ','.join(f"{o.id}{'(external)' if o.wbs is not task.wbs else ''}" for o in others) + ']'


def expected_cell(field, t, depth):
    if field == 'id':
        return str(t.id)
    if field == 'name':
        return '   ' * depth + (t.name if t.name is not None else '')
    if field == 'predecessors':
        return link_cell(t, list(t.predecessors))
    if field == 'successors':
        return link_cell(t, list(t.successors))
    if field == 'parent':
        return '' if t.parent is None else f"{t.parent.id}{'(external)' if t.parent.wbs is not t.wbs else ''}"
    return None


def check_table(text, n_rows_expected, what):
    """Common alignment checks.  Returns the table as rows of cells (raw strings without colour codes)."""
    raw = str.__str__(text) if isinstance(text, str) else str(text)
    lines = raw.split('\n')
    check(len(lines) == n_rows_expected, f'C20 {what}: number of lines', detail=f'{len(lines)} vs {n_rows_expected}')
    items = []
    widths = [xlen(strip_codes(ln)) for ln in lines]
    for k in range(1, len(lines)):
        items.append((widths[k] == widths[0], f'C20 {what}: lines differ in width', None))
    check_all(items)
    return lines


def h(cfg):
    xstr.install()
    parent, tasks, w, links, ext = gen(cfg)
    n = len(tasks)
    fi, children, ti, entry = SCENARIOS[choose('scenario', len(SCENARIOS))]
    fields, theme = FIELD_MENU[fi], THEMES[ti]  # entry: 0 WBS, 1 one task, 2 task list, 3 print()
    roots = [i for i in range(n) if parent[i] == -1]
    desc = f'parent={parent} fields={fields} children={children} theme={THEMES.index(theme)} entry={entry} links={links} ext={ext is not None}'
    note('desc', desc)
    note('class', zlib.crc32((desc + str([t.name is None for t in tasks]) + str([t.resource is None for t in tasks])).encode()))
    inst = _Installed()
    inst.set('pjplan.utils', 'len', xlen)
    inst.set('pjplan.task', 'len', xlen)
    try:
        if entry == 0:
            text = _Repr.repr(w.roots, fields, children, theme)
            shown_roots = roots
        elif entry == 1:
            k = choose('which', n)
            text = _Repr.repr([tasks[k]], fields, children, theme)
            shown_roots = [k]
        elif entry == 2:
            text = _Repr.repr(w.tasks, fields, children, theme)
            shown_roots = dfs(parent, roots)
        else:
            buf = io.StringIO()
            with contextlib.redirect_stdout(buf):
                w.print(fields, children, theme)
            text = buf.getvalue()
            if text.endswith('\n'):
                text = text[:-1]
            shown_roots = roots
    except Exception as ex:
        check(False, 'C20 rendering raised', detail=type(ex).__name__)
        return
    finally:
        inst.restore()
    inst = _Installed()
    inst.set('pjplan.utils', 'len', xlen)
    try:
        shown = []
        for r in shown_roots:
            shown += dfs(parent, [r], children)
        eff_fields = fields if fields is not None else DEFAULT_FIELDS
        lines = check_table(text, 1 + len(shown), 'task sheet')
        if len(lines) != 1 + len(shown):
            return
        # cells: every cell is wrapped in its own colour code pair
        table = []
        for ln in lines:
            cells = ln.split(ESC + '0m')
            if cells and cells[-1] == '':
                cells = cells[:-1]
            table.append([strip_codes(c) for c in cells])
        if any(ESC not in ln for ln in lines):
            return  # monochrome rows have no cell separators: only the line widths (checked above) are observable
        ok_shape = all(len(r) == len(eff_fields) for r in table)
        check(ok_shape, 'C20 task sheet: a line does not have one cell per field', detail=str([len(r) for r in table]))
        if not ok_shape:
            return
        items = []
        for c in range(len(eff_fields)):
            w0 = xlen(table[0][c])
            for r in range(1, len(table)):
                items.append((xlen(table[r][c]) == w0, 'C20 task sheet: column not aligned', eff_fields[c]))
        check_all(items)
        # content of the structural columns, in depth-first order
        rel = []
        for r0 in shown_roots:
            for i in dfs(parent, [r0], children):
                rel.append(depth_of(parent, i) - depth_of(parent, r0))
        for r, i in enumerate(shown):
            d = rel[r]  # depth relative to the task the listing starts from
            for c, f in enumerate(eff_fields):
                exp = expected_cell(f, tasks[i], d)
                if exp is None:
                    continue
                cell = table[1 + r][c]
                good = cell.startswith(' ' + exp + ' ')
                rest = cell[len(' ' + exp + ' '):] if good else ''
                good = good and all(k == 'atom' and a.kind == 'pad' or (k == 'text' and a.strip(' ') == '') for k, a in
                                    (segments(rest) if not is_native() else [('text', rest)]))
                check(good, 'C20 task sheet: cell content', detail=f)
    finally:
        inst.restore()


def h_usage(cfg):
    xstr.install()
    nres = 1 + choose('nres', 2)
    res = [Resource(fresh_str(f'rname{k}') if choose(f'named{k}', 2) else None) for k in range(nres)]
    t = Task(1, 'a')
    first = _real.datetime(2024, 1, 29)
    span = choose('span', 5)
    gaps = choose('gap', 2)
    rows = [ResourceUsageRow(res[0], first, t, 4)]
    if span > 0:
        rows.append(ResourceUsageRow(res[-1], first + _real.timedelta(days=span), t, 8))
    if gaps and span > 2:
        rows.append(ResourceUsageRow(res[0], first + _real.timedelta(days=1), t, 1.5))
    note('desc', f'usage table: {nres} resources span={span}')
    note('class', zlib.crc32(f'{nres}{span}{gaps}{[r.name is None for r in res]}'.encode()))
    inst = _Installed()
    inst.set('pjplan.utils', 'len', xlen)
    try:
        text = repr(ResourceUsageReport(rows))
        used = len(set(id(r.resource) for r in rows))
        lines = check_table(text, 1 + span + 1, 'usage table')
        for k, ln in enumerate(lines[1:]):
            day = (first + _real.timedelta(days=k)).strftime('%y-%m-%d')
            check(day in strip_codes(ln), 'C20 usage table: line is not the expected day', detail=day)
    except Exception as ex:
        check(False, 'C20 usage table raised', detail=type(ex).__name__)
    finally:
        inst.restore()


def harnesses(tier):
    if tier == 'quick':
        return [{'name': 'sheet-n3', 'fn': h, 'cfg': {'n': 3, 'pops': [(1, 1, 1), (0, 0, 0)]}}, {'name': 'sheet-n2', 'fn': h, 'cfg': {'n': 2}},
                {'name': 'usage-table', 'fn': h_usage, 'cfg': {}}]
    return [{'name': 'sheet-n3-all', 'fn': h, 'cfg': {'n': 3}}, {'name': 'sheet-n4', 'fn': h, 'cfg': {'n': 4, 'pops': [(1, 1, 1), (0, 0, 0)]}}, {'name': 'usage-table', 'fn': h_usage, 'cfg': {}}]
