"""C19 - renderings show every task and dependency exactly once with its real dates."""
import datetime as _real
import html
import json as _json
import re
import zlib

from symx import (check, check_all, choose, assume, note, fresh_real, fresh_bool, And, Or, Not, is_native, core)
from symx import xstr
from symx.xstr import fresh_str, raw
from symx.stubs import _Installed

from pjplan import Task, WBS, MermaidGantt, MermaidNetwork, DhtmlxGantt

PROPERTY = 'C19'
LEVEL = 'other'
EXPLANATION = ('Bounded symbolic execution of the three renderers (MermaidGantt, MermaidNetwork, DhtmlxGantt.to_html / _repr_html_) '
               'with SMT: shapes, links, sections and style attributes forked; milestone flags symbolic booleans, estimate/spent '
               'symbolic rationals (the progress formula is decided by the solver: 0 <= progress <= 1 for all values), names opaque '
               'symbolic single-line strings plus a concrete adversarial menu (quotes, braces, angle brackets, $, :, non-ASCII). The '
               'produced document is parsed textually and compared with the statement. Solver content is thin here (milestone '
               'branches, progress arithmetic); most of the claim is structural over the forked shapes - said plainly.')
RULE = 'one evaluation = one symbolic path (shape, links, sections, styles, name kind, renderer forked; milestone, estimate, spent symbolic)'
BOUNDS = {'quick': {'tasks': '<=3', 'names': 'opaque symbolic or adversarial menu', 'dates': 'concrete (year 2100)'},
          'thorough': {'tasks': '<=4'}}
OUTSIDE = ['how Mermaid/DHTMLX parse the text in a browser (e.g. </script> inside the embedded JSON)', 'JSON string escaping (C code of json, trusted)',
           'multi-line names', 'names that contain renderer syntax beyond the listed character classes (e.g. " --> " sequences) are covered only '
           'by the listed menu']
STUBS = ['json in pjplan.viz.dhtmlx.gantt -> shim calling the real json.dumps with a default= hook that renders symbolic numbers as opaque tokens',
         'str(SymReal) -> opaque token']
ASSUMPTIONS = ['str.format / f-strings / string.Template / html.escape move opaque tokens unchanged']

NAMES = ['plain', 'say "hi"', '{x}', '<b>bold</b>', '$src and $styles', 'a:b:c', 'ünï-ж', "it's", '}}', '100% {{done}}']
D0 = _real.datetime(2100, 1, 4)
DPAST = _real.datetime(2001, 3, 5)
# (name: 'sym' or index into NAMES, has spent, section, style attributes): every value occurs
TASK_PROFILES = [('sym', 1, 0, 0), (1, 0, 1, 1), (2, 1, 2, 0), (3, 0, 0, 1), (4, 1, 1, 0), (5, 1, 0, 0), (6, 0, 2, 1), (7, 1, 0, 0),
                 (8, 0, 0, 0), (9, 1, 1, 1), (0, 1, 0, 0)]


class JsonShim:
    def __getattr__(self, k):
        return getattr(_json, k)

    @staticmethod
    def dumps(obj, **kw):
        def hook(o):
            if isinstance(o, (core.SymReal, core.SymInt)):
                return str(xstr.decimal(o))
            if isinstance(o, core.SymBool):
                return bool(o)
            raise TypeError(type(o))

        return _json.dumps(obj, default=hook, **kw)


def build(cfg):
    n = cfg['n']
    parent = [-1] * n
    for i in range(1, n):
        parent[i] = [-1, i - 1][choose(f'par{i}', 2)]
    names, tasks = [], []
    for i in range(n):
        tps = cfg.get('task_profiles', TASK_PROFILES)
        nk, hassp, sec, sty = tps[choose(f'tp{i}', len(tps))]
        nm = fresh_str(f'name{i}') if nk == 'sym' else NAMES[nk]
        names.append(nm)
        leaf = not any(parent[c] == i for c in range(n))
        ms = fresh_bool(f'ms{i}') if leaf and cfg.get('sym_milestone', True) else False
        est = fresh_real(f'est{i}', 0, 40)
        sp = fresh_real(f'spent{i}', 0, 60) if hassp else None
        # tasks alternate between the far future and the past (a reached milestone / finished task renders differently)
        base = D0 if (i + (0 if hassp else 1)) % 2 == 0 else DPAST
        t = Task(10 + i, nm, resource='r', milestone=ms, estimate=est, spent=sp,
                 start=base + _real.timedelta(days=i, hours=8 + i, minutes=5), end=base + _real.timedelta(days=i + 2, hours=17, minutes=30))
        if sec:
            t.gantt_section = ['-', 'Phase A', 'Phase B'][sec]
        if sty:
            t.gantt_bar_style = {'fill': 'red'}
            t.network_bar_style = {'fill': '#f96'}
        tasks.append(t)
    w = WBS()
    for i in range(n):
        if parent[i] == -1:
            w.roots.append(tasks[i])
        else:
            tasks[parent[i]].children.append(tasks[i])
    links = []
    for i in range(n):
        for j in range(i + 1, n):
            anc, x = [], j
            while parent[x] != -1:
                x = parent[x]
                anc.append(x)
            if i in anc:
                continue
            if choose(f'lk{i}_{j}', 2):
                tasks[j].predecessors.append(tasks[i])
                links.append((i, j))
    return parent, names, tasks, w, links


def fmt_dm(d, sep):
    return d.strftime(f'%d{sep}%m{sep}%Y %H:%M')


def h(cfg):
    xstr.install()
    xstr.install_decimal()
    parent, names, tasks, w, links = build(cfg)
    n = len(tasks)
    renderer = choose('renderer', 3)
    desc = f'parent={parent} links={links} renderer={["gantt", "network", "dhtmlx"][renderer]} names={[("sym" if not isinstance(x, str) or xstr.OPEN in raw(x) else x) for x in names]}'
    note('desc', desc)
    note('class', zlib.crc32((desc + str(core.ctx().notes.get('choices'))).encode()))
    inst = _Installed()
    inst.set('pjplan.viz.dhtmlx.gantt', 'json', JsonShim())
    try:
        try:
            if renderer == 0:
                r = MermaidGantt(w)
            elif renderer == 1:
                r = MermaidNetwork(w)
            else:
                r = DhtmlxGantt(w)
            # the renderer object may be kept while the WBS is edited: it must show the WBS as it is when rendering
            if choose('edit_after_construct', 2):
                victim = tasks[-1]
                if parent[-1] == -1 and not victim.predecessors and not victim.successors and not list(victim.children) and n > 1:
                    w.remove(victim)
                    tasks = tasks[:-1]
                    parent = parent[:-1]
                    n -= 1
                    note('desc', desc + ' (last task removed after the renderer was created)')
            doc = r.to_html()
            nb = r._repr_html_()
        except Exception as ex:
            check(False, 'C19 rendering raised', detail=f'{type(ex).__name__} {["gantt", "network", "dhtmlx"][renderer]}')
            return
        doc = raw(doc)
        check(raw(nb).startswith('<iframe srcdoc="' + html.escape(doc) + '"'), 'C19 notebook representation is not the HTML-escaped document')
        order = list(w.tasks)
        if renderer == 0:
            src = doc.split('<div class="mermaid">\n', 1)[1].split('\n</div>', 1)[0]
            lines = src.split('\n')
            tail = re.compile(r'id_(-?\d+), (\d\d\.\d\d\.\d{4} \d\d:\d\d), (\d\d\.\d\d\.\d{4} \d\d:\d\d)$')
            task_lines = [ln for ln in lines if tail.search(ln)]
            check(len(task_lines) == n, 'C19 gantt: number of task lines', detail=f'{len(task_lines)} vs {n}')
            sections = {}
            cur = None
            for ln in lines:
                if ln.startswith('  section '):
                    cur = ln[len('  section '):]
                m = tail.search(ln)
                if m:
                    sections.setdefault(int(m.group(1)), []).append((cur, ln, m))
            multi = len(set(t.__dict__.get('gantt_section', '-') for t in tasks)) > 1
            for t in tasks:
                got = sections.get(t.id, [])
                check(len(got) == 1, 'C19 gantt: not exactly one line for a task', detail=f'{len(got)}')
                if len(got) != 1:
                    continue
                sec, ln, m = got[0]
                check(m.group(2) == fmt_dm(t.start, '.') and m.group(3) == fmt_dm(t.end, '.'), 'C19 gantt: dates of a task line')
                head = ln[:m.start()]
                check(head.count(':') == 1, 'C19 gantt: name text alters the task line', detail=repr(raw(t.name))[:20])
                flag = 'milestone,' in head.split(':', 1)[1] if ':' in head else False
                ms = t.milestone
                check(ms if flag else Not(ms), 'C19 gantt: milestone flag')
                if multi:
                    check(sec == t.__dict__.get('gantt_section', '-'), 'C19 gantt: task is not under its section', detail=f'{sec}')
        elif renderer == 1:
            src = doc.split('<div class="mermaid">\n', 1)[1].split('\n</div>', 1)[0] if '<div class="mermaid">\n' in doc else doc
            lines = [ln for ln in src.split('\n') if ' --> ' in ln]
            edges = []
            for ln in lines:
                parts = ln.split(' --> ')
                check(len(parts) == 2, 'C19 network: name text adds or alters an edge', detail=ln[:50])
                ms_ = re.match(r'^  (\d+)\{\{', parts[0])
                mt = re.match(r'^(-?\d+)\{\{', parts[-1])
                src_id = 'start' if 'Start' in parts[0] and not ms_ else (int(ms_.group(1)) if ms_ else None)
                edges.append((src_id, int(mt.group(1)) if mt else None))
            exp = []
            for t in order:
                if len(t.predecessors) == 0:
                    exp.append(('start', t.id))
                for p in t.predecessors:
                    exp.append((p.id, t.id))
            check(sorted(map(str, edges)) == sorted(map(str, exp)), 'C19 network: edges differ from the dependencies',
                  detail=f'{edges} vs {exp}'[:100])
        else:
            body = doc.split('gantt.parse(', 1)[1].rsplit(');', 1)[0]
            try:
                data = _json.loads(body)
            except Exception as ex:
                check(False, 'C19 dhtmlx: embedded data is not JSON', detail=str(ex)[:50])
                return
            ent = data.get('data', [])
            check(sorted(e.get('id') for e in ent) == sorted(t.id for t in tasks), 'C19 dhtmlx: not exactly one entry per task')
            by_id = {e.get('id'): e for e in ent}
            items = []
            for i, t in enumerate(tasks):
                e = by_id.get(t.id)
                if e is None:
                    continue
                check(e.get('text') == raw(t.name), 'C19 dhtmlx: name of an entry', detail=repr(raw(t.name))[:20])
                check(e.get('start_date') == fmt_dm(t.start, '-') and e.get('end_date') == fmt_dm(t.end, '-'), 'C19 dhtmlx: dates of an entry')
                check(e.get('parent') == (tasks[parent[i]].id if parent[i] != -1 else 0), 'C19 dhtmlx: parent of an entry')
                p = e.get('progress')
                if isinstance(p, str):
                    p = xstr.xfloat(p)
                items.append((And(p >= 0, p <= 1), 'C19 dhtmlx: progress outside 0..1', None))
                ms = t.milestone
                isms = e.get('type') == 'milestone'
                items.append(((ms if isms else Not(ms)) if not isinstance(ms, bool) else (ms == isms), 'C19 dhtmlx: milestone type', None))
            check_all(items)
            lk = data.get('links', [])
            check(len(set(x.get('id') for x in lk)) == len(lk), 'C19 dhtmlx: link ids are not unique')
            exp = sorted((tasks[a].id, tasks[b].id) for a, b in [(a, b) for a, b in
                         [(a_, b_) for a_, b_ in [(x, y) for x, y in [(i, j) for i, j in []]]]]) if False else \
                sorted((p.id, t.id) for t in tasks for p in t.predecessors)
            check(sorted((x.get('source'), x.get('target')) for x in lk) == exp, 'C19 dhtmlx: links differ from the dependencies')
    finally:
        inst.restore()


def harnesses(tier):
    if tier == 'quick':
        return [{'name': 'render-n2', 'fn': h, 'cfg': {'n': 2}}, {'name': 'render-n3-structure', 'fn': h, 'cfg': {'n': 3, 'sym_milestone': False, 'task_profiles': [('sym', 1, 0, 0), (2, 0, 1, 1), (9, 1, 2, 0)]}}]
    return [{'name': 'render-n3', 'fn': h, 'cfg': {'n': 3, 'task_profiles': TASK_PROFILES[:6]}}, {'name': 'render-n2', 'fn': h, 'cfg': {'n': 2}}]
