LEVEL = 'other'
RULE = ('one evaluation = one symbolic path of calc(): a concrete fork class (hierarchy, link placement, milestones, '
        'resources and calendars, start/clock day, balance flag, which quantities are present) with symbolic times of '
        'day (microseconds) of project start/deadline, clock, min_start and fixed dates and symbolic estimates/spent on '
        'the 1/4 grid; z3 decides every comparison of dates and quantities inside pjplan. distinct_nontrivial = fork '
        'classes whose path posed at least one assertion query')
EXPLANATION = ('Bounded symbolic execution of the real ForwardScheduler/BackwardScheduler.calc with SMT (z3): datetime, '
               'timedelta and the wall clock are replaced by a (day, microsecond) model whose time of day is symbolic; '
               'estimates/spent are symbolic rationals; every branch is decided by the solver and all feasible sides are '
               'explored; the property is asserted over the symbolic result on every path (unsat = holds for all values '
               'on that path). Counterexamples are replayed on the unmodified code with real datetime/float values.')
OUTSIDE = ['more tasks than the bound', 'quantities off the 1/4 grid (e.g. 0.1) and above the bound E',
           'capacities other than the calendar menu', 'tz-aware datetimes', 'a clock that advances during one calc call',
           'custom IResource/IWorkCalendar subclasses']
STUBS = ['datetime/timedelta in pjplan.schedule, pjplan.resource, pjplan.calendar -> symx (ordinal day, microsecond) '
         'model; timedelta(hours=x) rounds half-even to microseconds as CPython does',
         'datetime.now() -> one symbolic instant per calc call']
ASSUMPTIONS = ['the datetime model agrees with CPython datetime (validated differentially by ./check selftest-dt and by '
               'native replay of every counterexample)',
               'binary64 arithmetic on 1/4-grid quantities with capacities from the menu equals exact rational '
               'arithmetic after rounding to microseconds (DESIGN.md §4.4)', 'z3 answers are correct']
BOUNDS = {
    'quick': {'tasks': '2-3 (targeted 4- and 6-task shapes for inherited dependencies)', 'profiles': 'targeted: every value of every '
              'dimension occurs, not the full product (see harness/sched.py FWD_QUICK_PROFILES / BWD_QUICK_PROFILES and the property module)',
              'estimate/spent': 'symbolic on the 1/4 (or 1/8) grid in [0, E], E <= 12 units (one task spans <= 8 days)',
              'times_of_day': 'symbolic microsecond of project start/deadline, clock, min_start, fixed dates',
              'days': 'concrete per fork: start day Monday + menu, clock day offset menu', 'calendars': 'menu of 8 (harness/sched.py CALENDARS)',
              'per_harness_cap_s': 480},
    'thorough': {'tasks': '3 (feature products) and 4 (link shapes)', 'profiles': 'harness/sched.py FWD_THOROUGH_PROFILES / BWD_THOROUGH_PROFILES',
                 'per_harness_cap_s': 1500, 'second_solver': 'every 200th solver-decided assertion query re-decided by z3 4.8.12'},
}
