"""C10 - clone and subtree produce faithful, independent copies."""
import zlib

from symx import check, check_all, choose, assume, note, fresh_int, And, Or, Not
from harness import graph
from harness.graph import (gen_shape, build, snapshot, snap_diff, pick_op, reach_from_roots, describe, sub, Universe)
from harness.graph_meta import *  # noqa

PROPERTY = 'C10'

MUTATIONS = ['set_parent', 'ch_append', 'ch_remove', 'set_preds', 'succ_append', 'ch_sort', 'wbs_remove', 'set_children']


def members_snapshot(U, members):
    S = snapshot(U)
    out = {}
    for m in members:
        out[m] = (S['par'][m], tuple(S['ch'][m]), tuple(S['pr'][m]), tuple(S['su'][m]), S['w'][m], S['key'][m], S['id'][m],
                  U.tasks[m].name, U.tasks[m].__dict__.get('custom'))
    return out, tuple(S['roots'][0])


def h(cfg):
    # W1 is the source; tasks of W2 and detached tasks are the "outside" tasks (another project / free-standing)
    shape = gen_shape(cfg['N'], cfg.get('nW', 1))
    U = build(shape)
    W = U.wbss[0]
    W.release = 'r1'
    W.owner_attr = U.keys[0]
    for i, t in enumerate(U.tasks):
        t.custom = ('c', i)
        if i % 2 == 0:
            t.reviewer = None  # a custom attribute whose value is None is still an attribute
    S = snapshot(U)
    members = reach_from_roots(S, 0)
    outside = [i for i in range(U.N) if i not in members]
    if not members:
        assume(False, 'empty WBS')
    mode = choose('mode', 2)  # 0 clone, 1 subtree
    if mode == 0:
        sel_roots = list(S['roots'][0])
        what = 'clone()'
    else:
        k = 1 + choose('nsel', min(2, len(members)))
        sel_roots = []
        for j in range(k):
            m = members[choose(f'sel{j}', len(members))]
            sel_roots.append(m)
        # selections must not overlap
        allsel = []
        for r in sel_roots:
            s_ = sub(S, r)
            if any(x in allsel for x in s_):
                assume(False, 'overlapping selection')
            allsel += s_
        what = f'subtree({sel_roots})'
    desc = describe(shape) + ' :: ' + what
    note('desc', desc)
    note('class', zlib.crc32(desc.encode()))
    selected = []
    for r in sel_roots:
        selected += sub(S, r)
    before = members_snapshot(U, members)
    try:
        C = W.clone() if mode == 0 else W.subtree([U.tasks[r] for r in sel_roots])
    except Exception as ex:
        check(False, 'C10 copy raised', detail=f'{type(ex).__name__} in {what.split("(")[0]}')
        return
    after = members_snapshot(U, members)
    check(before == after, 'C10 source WBS changed by the copy', detail=what.split('(')[0])
    copies = list(C.tasks)
    check(C is not W, 'C10 copy is the source object')
    if len(copies) != len(selected):
        check(False, 'C10 copy has a different number of tasks', detail=f'{len(copies)} vs {len(selected)} in {what.split("(")[0]}')
        return
    cmap = {}  # member index -> copy object (DFS order of the copy must equal the order of the selection)
    for m, c in zip(selected, copies):
        cmap[m] = c
    cix = {id(c): m for m, c in cmap.items()}
    uix = U.index
    items = []
    for m, c in cmap.items():
        t = U.tasks[m]
        check(id(c) not in uix, 'C10 copy shares a task object with the source or the outside')
        items.append((c.id == t.id, 'C10 copied task has another id', None))
        check(c.name == t.name and c.__dict__.get('custom') is t.__dict__.get('custom') and c.__dict__.get('key') is t.__dict__.get('key'),
              'C10 copied task lost a field or custom attribute')
        check(sorted(k for k in c.__dict__ if not k.startswith('_')) == sorted(k for k in t.__dict__ if not k.startswith('_')),
              'C10 copied task has another set of attributes', detail=str(sorted(set(t.__dict__) ^ set(c.__dict__))))
        check(c.wbs is C, 'C10 copied task does not report the new WBS as owner')
        # hierarchy
        pm = S['par'][m]
        exp_parent = cmap.get(pm) if (pm is not None and pm in cmap and m not in sel_roots) else None
        check(c.parent is exp_parent, 'C10 hierarchy of the copy differs', detail='parent')
        check([cix.get(id(x), '?') for x in c.children] == list(S['ch'][m]), 'C10 hierarchy of the copy differs', detail='children order')
        # links
        for nm, src_list, cp_list in (('predecessors', S['pr'][m], c.predecessors), ('successors', S['su'][m], c.successors)):
            exp_in = sorted(x for x in src_list if x in cmap)
            exp_out = sorted(x for x in src_list if x in outside)
            got_in = sorted(cix[id(x)] for x in cp_list if id(x) in cix)
            got_out = sorted(uix[id(x)] for x in cp_list if id(x) in uix)
            got_other = [x for x in cp_list if id(x) not in cix and id(x) not in uix]
            check(got_in == exp_in, 'C10 dependency links among the copied tasks differ', detail=nm)
            check([g for g in got_out if g in outside] == exp_out, 'C10 links to tasks outside the source WBS are not kept on the same outside tasks',
                  detail=nm)
            check(not [g for g in got_out if g in members], 'C10 copy is linked to a member of the source WBS', detail=nm)
            check(not got_other, 'C10 copy is linked to an unknown task object', detail=nm)
    check([cix.get(id(x), '?') for x in C.roots] == sel_roots, 'C10 root order of the copy differs')
    check(C.__dict__.get('release') == 'r1' and C.__dict__.get('owner_attr') is U.keys[0], 'C10 WBS attributes not carried over')
    check_all(items)
    # independence: one arbitrary mutation on one side must not show on the other
    if not cfg.get('mutate', True):
        return
    side = choose('mutate', 2)
    U2 = Universe()
    U2.shape, U2.N, U2.nW = shape, U.N, 1
    U2.tasks = [cmap.get(i, U.tasks[i]) if i in members else U.tasks[i] for i in range(U.N)]
    # members that were not selected have no copy: keep the source object there but never pick it as target on the copy side
    U2.ids, U2.keys = U.ids, U.keys
    U2.wbss = [C]
    U2.index = {id(t): i for i, t in enumerate(U2.tasks)}
    U2.windex = {id(C): 1}
    if side == 0:
        op = pick_op(U, MUTATIONS, 1)
        watch = lambda: copy_snapshot(C, cmap, cix, uix)
    else:
        if len(selected) != len(members) or U.nW != 1:
            return
        op = pick_op(U2, MUTATIONS, 1)
        watch = lambda: members_snapshot(U, members)
    subj = graph.op_subject(U, op)
    if isinstance(subj, int) and subj not in members:
        assume(False, 'mutation of an outside task is not a change of source or copy')
    b = watch()
    try:
        op.run()
    except Exception:
        pass
    a = watch()
    check(a == b, 'C10 a later change on one side shows on the other', detail=('source mutated' if side == 0 else 'copy mutated') + ': ' + graph._opkind(op.desc))


def copy_snapshot(C, cmap, cix, uix):
    out = []
    for m, c in sorted(cmap.items()):
        out.append((m, cix.get(id(c.parent)) if c.parent is not None else None, tuple(cix.get(id(x), '?') for x in c.children),
                    tuple(sorted(str(cix.get(id(x), uix.get(id(x), '?'))) + ('c' if id(x) in cix else 'o') for x in c.predecessors)),
                    tuple(sorted(str(cix.get(id(x), uix.get(id(x), '?'))) + ('c' if id(x) in cix else 'o') for x in c.successors)),
                    c.wbs is C, c.name, id(c.__dict__.get('key'))))
    return out, tuple(cix.get(id(x), '?') for x in C.roots)


def harnesses(tier):
    if tier == 'quick':
        return [{'name': 'copy-N3', 'fn': h, 'cfg': {'N': 3}},
                {'name': 'copy-N3-other-wbs', 'fn': h, 'cfg': {'N': 3, 'nW': 2, 'mutate': False}}]
    return [{'name': 'copy-N4-structure', 'fn': h, 'cfg': {'N': 4, 'mutate': False}}, {'name': 'copy-N3', 'fn': h, 'cfg': {'N': 3}}]
