"""C12 - critical_path returns exactly the zero-float leaves of the dependency network."""
import zlib

import z3

from symx import check, check_all, choose, assume, note, fresh_real, And, Or, Not, Iff, is_native, core
from harness import sched
from harness.sched import prerequisites, dependents, ancestors, Task, WBS

PROPERTY = 'C12'
LEVEL = 'other'
EXPLANATION = ('Bounded symbolic execution of WBS.critical_path()/CriticalPathCalculator with SMT: every hierarchy and link '
               'placement (links on leaves and on summaries, optional predecessor outside the WBS) within the bound, '
               'estimates/spent symbolic rationals or missing; the returned set is compared, leaf by leaf, with a reference '
               'model written from the statement (longest path over the effective leaf-level dependency DAG with symbolic '
               'durations); one solver query per leaf and path.')
RULE = ('one evaluation = one symbolic path (shape, links, which values are missing: forked; estimates/spent: symbolic); '
        'distinct_nontrivial = fork classes that posed an assertion query')
BOUNDS = {'quick': {'tasks': '<=4 (n=4 without missing values)', 'estimate/spent': 'any real in [0, 12] (LRA) or missing'},
          'thorough': {'tasks': '<=5'}}
OUTSIDE = ['binary64 rounding of non-dyadic estimates (the statement\'s rounding clause): the model uses exact rationals; '
           'see DESIGN.md', 'more than 5 tasks']
STUBS = ['none']
ASSUMPTIONS = ['z3 answers are correct', 'reference longest-path model is correct (40 lines, quoted in DESIGN.md)']


TOL = 1e-6  # floats within this distance of the project length count as rounding noise


def zmax(xs):
    """max of python/symbolic numbers as one z3 term (no path fork)."""
    if is_native():
        return max(xs)
    es = [core._z(x) for x in xs]
    es = [z3.ToReal(e) if e.sort() == z3.IntSort() else e for e in es]
    m = es[0]
    for e in es[1:]:
        m = z3.If(e > m, e, m)
    return core.SymReal(m)


def h(cfg):
    P = sched.gen_problem(cfg)
    cfg = P.cfg
    d = sched.describe(P)
    outside = cfg.get('outside') and choose('outside', 2)
    w, tasks = sched.build_wbs(P)
    if outside:
        tgt = choose('outside_to', P.n)
        # the outside task may share its id with a leaf of this WBS (ids are unique per WBS only)
        xid = [99] + [i for i in range(P.n) if i != tgt][:1]
        x = Task(xid[choose('outside_id', len(xid))], 'X', estimate=fresh_real('est_x', 0, 12, grid=None))
        tasks[tgt].predecessors.append(x)
        d += f' outside-pred-of={tgt}'
    note('desc', d)
    note('class', zlib.crc32(d.encode()))
    leaves = [i for i in range(P.n) if P.leaf[i]]
    dur = {}
    for i in leaves:
        e = P.est[i] if P.est[i] is not None else 0
        s = P.spent[i] if P.spent[i] is not None else 0
        dur[i] = zmax([e - s, 0])
    # acyclic at leaf level (hierarchy-closed cycles are outside the quantifier "acyclic WBSs")
    pre = {i: prerequisites(P, i) for i in leaves}
    dep = {i: dependents(P, i) for i in leaves}
    order = []
    seen = {}

    def visit(u):
        if seen.get(u) == 1:
            assume(False, 'cycle through the hierarchy')
        if u in seen:
            return
        seen[u] = 1
        for p in pre[u]:
            visit(p)
        seen[u] = 2
        order.append(u)

    for i in leaves:
        visit(i)
    EF, TL = {}, {}
    for u in order:
        EF[u] = dur[u] + (zmax([EF[p] for p in pre[u]]) if pre[u] else 0)
    for u in reversed(order):
        TL[u] = zmax([dur[s] + TL[s] for s in dep[u]]) if dep[u] else 0
    length = zmax([EF[u] for u in leaves])
    before = [(t.parent, list(t.children), list(t.predecessors), list(t.successors), t.estimate, t.spent, t.start, t.end)
              for t in tasks]
    try:
        res = list(w.critical_path())
    except Exception as ex:
        check(False, 'C12 critical_path raised', detail=type(ex).__name__)
        return
    after = [(t.parent, list(t.children), list(t.predecessors), list(t.successors), t.estimate, t.spent, t.start, t.end)
             for t in tasks]
    same = all(a[0] is b[0] and a[1] == b[1] and a[2] == b[2] and a[3] == b[3] and all(x is y for x, y in zip(a[4:], b[4:]))
               for a, b in zip(before, after))
    check(same, 'C12 critical_path modified the WBS')
    ix = {id(t): i for i, t in enumerate(tasks)}
    got = [ix.get(id(t), '?') for t in res]
    check(all(g != '?' and P.leaf[g] for g in got), 'C12 result contains a task that is not a leaf of the WBS',
          detail='outside task' if '?' in got else 'summary')
    check(len(set(got)) == len(got), 'C12 result lists a task twice')
    check(len(got) > 0, 'C12 result is empty although the WBS has a leaf')
    items = []
    for u in leaves:
        slack = length - EF[u] - TL[u]
        member = u in got
        # zero float => returned; float above the rounding tolerance => not returned; in between either answer is accepted
        items.append(((slack <= TOL) if member else (slack > 0), 'C12 returned set differs from the zero-float leaves',
                      'non-critical leaf returned' if member else 'critical leaf missing'))
    check_all(items)


BASE = {'grid': None, 'milestones': False, 'resources': ['r'], 'calendars': ['default'], 'balance': [True], 'E': 12, 'scenarios': [(0, -1)],
        'sym_start_us': False}


def harnesses(tier):
    if tier == 'quick':
        return [
            {'name': 'n3-missing-values', 'fn': h, 'cfg': dict(BASE, n=3, est_none=True, spent_none=True)},
            {'name': 'n3-outside', 'fn': h, 'cfg': dict(BASE, n=3, spent_none=False, outside=True)},
            {'name': 'n4-deep', 'fn': h, 'cfg': dict(BASE, n=4, spent_none=False, fixed_parent=[-1, 0, 1, -1])},
            {'name': 'n4-summary-links', 'fn': h, 'cfg': dict(BASE, n=4, spent_none=False, fixed_parent=[-1, 0, 0, -1])},
            {'name': 'n4-flat', 'fn': h, 'cfg': dict(BASE, n=4, spent_none=False, hierarchy=False, link_pairs=[(0, 1), (0, 2), (1, 3), (2, 3)])},
            {'name': 'binary64-regression-menu', 'fn': h_float_menu, 'cfg': {}},
        ]
    return [
        {'name': 'n3-missing-values-outside', 'fn': h, 'cfg': dict(BASE, n=3, est_none=True, spent_none=True, outside=True)},
        {'name': 'n4', 'fn': h, 'cfg': dict(BASE, n=4, spent_none=False)},
        {'name': 'n4-outside', 'fn': h, 'cfg': dict(BASE, n=4, spent_none=False, outside=True, link_pairs=[(0, 1), (1, 2), (2, 3), (0, 3)])},
        {'name': 'n5-flat', 'fn': h, 'cfg': dict(BASE, n=5, spent_none=False, hierarchy=False, link_pairs=[(0, 1), (1, 2), (2, 3), (3, 4), (0, 4), (1, 3)])},
        {'name': 'n4-deep', 'fn': h, 'cfg': dict(BASE, n=4, spent_none=False, fixed_parent=[-1, 0, 1, -1])},
        {'name': 'binary64-regression-menu', 'fn': h_float_menu, 'cfg': {}},
    ]


# ---------------------------------------------------------------------------
# rounding clause: binary64 search harness (counterexample search only)

def h_fp(cfg):
    """Chains/forks of leaves with arbitrary binary64 estimates: every leaf on the exactly longest chain must be returned."""
    from symx import xfp
    shape = cfg['shapes'][choose('shape', len(cfg['shapes']))]
    n = shape['n']
    est = [xfp.fresh_float(f'fest{i}', 0.015625, cfg.get('hi', 1000.0)) for i in range(n)]
    w = WBS()
    tasks = [Task(i, f't{i}', estimate=est[i]) for i in range(n)]
    for t in tasks:
        w.roots.append(t)
    for a, b in shape['links']:
        tasks[b].predecessors.append(tasks[a])
    note('desc', f'binary64 estimates, links={shape["links"]}')
    note('class', zlib.crc32(str(shape).encode()))
    try:
        res = list(w.critical_path())
    except Exception as ex:
        check(False, 'C12 critical_path raised', detail=type(ex).__name__)
        return
    got = [t.id for t in res]
    # exact (real-valued) lengths of the maximal chains
    if is_native():
        from fractions import Fraction
        val = [Fraction(e) for e in est]
        tot = [sum(val[i] for i in ch) for ch in shape['chains']]
        longest = max(tot)
        for ch, tt in zip(shape['chains'], tot):
            if tt == longest:
                for i in ch:
                    check(i in got, 'C12 result depends on floating-point rounding: a leaf of an exactly longest chain is missing',
                          detail=f'chain {ch}')
        return
    real = [xfp.to_real(e) for e in est]
    tot = [sum([real[i] for i in ch]) for ch in shape['chains']]
    for k, ch in enumerate(shape['chains']):
        is_longest = z3.And(*[tot[k] >= t for t in tot])
        for i in ch:
            if i not in got:
                check(core.SymBool(z3.Not(is_longest)), 'C12 result depends on floating-point rounding: a leaf of an exactly longest chain is missing',
                      detail=f'chain {ch}')
            else:
                check(True, 'C12 (leaf returned)')


FP_SHAPES = [
    {'n': 3, 'links': [(0, 1), (1, 2)], 'chains': [[0, 1, 2]]},
    {'n': 3, 'links': [(0, 2), (1, 2)], 'chains': [[0, 2], [1, 2]]},
]


def h_float_menu(cfg):
    """NOT solver-decided: the rounding clause ("insensitive to floating-point rounding") is beyond z3's floating-point
    reach in both directions here (QF_FP decisions time out at 60 s, see DESIGN.md).  This menu of concrete binary64
    inputs runs natively inside the same harness as a regression sample; it is reported as sampling, not as a verdict."""
    menu = [
        ([0.1, 0.2, 0.3], [(0, 1), (1, 2)], [0, 1, 2]),
        ([0.1, 0.7, 0.2, 0.6], [(0, 1), (0, 2), (2, 3)], [0, 2, 3]),
        ([1.1, 1.1, 1.1, 3.3], [(0, 1), (1, 2)], [0, 1, 2, 3]),
        ([0.3, 0.6, 0.9], [(0, 1)], [0, 1, 2]),
        ([1e-3, 2e-3, 3e-3], [(0, 1)], [0, 1, 2]),
    ]
    k = choose('menu', len(menu))
    est, links, expected = menu[k]
    note('desc', f'concrete binary64 estimates {est} links {links} (sample, not a solver verdict)')
    note('class', k)
    w = WBS()
    tasks = [Task(i, f't{i}', estimate=e) for i, e in enumerate(est)]
    for t in tasks:
        w.roots.append(t)
    for a, b in links:
        tasks[b].predecessors.append(tasks[a])
    got = sorted(t.id for t in w.critical_path())
    check(got == expected, 'C12 result depends on floating-point rounding (concrete regression sample)', detail=f'{est}: {got} vs {expected}')
