"""Graph family: arbitrary well-formed state (representation invariant) + one public
mutator call with arbitrary arguments; snapshots through the public getters; reference
effects written from the property statements.  Shared by C01, C05, C10, C11, C15, C16."""
import sys

from symx import (fresh_int, choose, assume, check, note, And, Or, Not, is_native, SymInt)
from symx import core
import z3

from pjplan import Task, WBS

ID_LO, ID_HI = -(2 ** 31), 2 ** 31
KEY_LO, KEY_HI = -1000, 1000


# ---------------------------------------------------------------------------
# state generation

def gen_shape(N, nW, links=True):
    """Canonical ordered forest (DFS numbering) + home per tree + a link direction per
    non-ancestral pair (acyclic).  All by choose()."""
    parent = [-1] * N
    for i in range(1, N):
        cands = [-1]
        j = i - 1
        while j != -1:
            cands.append(j)
            j = parent[j]
        parent[i] = cands[choose(f'par{i}', len(cands))]
    roots = [i for i in range(N) if parent[i] == -1]
    home = {}
    for r in roots:
        home[r] = choose(f'home{r}', nW + 1)

    def ancestors(i):
        out = []
        while parent[i] != -1:
            i = parent[i]
            out.append(i)
        return out

    lk = []
    if links:
        for i in range(N):
            for j in range(i + 1, N):
                if i in ancestors(j) or j in ancestors(i):
                    continue
                c = choose(f'lk{i}_{j}', 3)
                if c == 1:
                    lk.append((i, j))
                elif c == 2:
                    lk.append((j, i))
        # acyclic
        succ = {i: [b for a, b in lk if a == i] for i in range(N)}
        state = {}

        def dfs(u):
            state[u] = 1
            for v in succ[u]:
                if state.get(v) == 1:
                    return False
                if v not in state and not dfs(v):
                    return False
            state[u] = 2
            return True

        for i in range(N):
            if i not in state and not dfs(i):
                assume(False, 'cyclic links')
    return {'N': N, 'nW': nW, 'parent': parent, 'home': home, 'links': lk, 'none_key': None}


def tree_root(shape, i):
    while shape['parent'][i] != -1:
        i = shape['parent'][i]
    return i


def id_domains(shape):
    """Groups of tasks whose ids must be pairwise distinct (same detached tree / same WBS)."""
    groups = {}
    for i in range(shape['N']):
        r = tree_root(shape, i)
        h = shape['home'][r]
        key = ('W', h) if h else ('T', r)
        groups.setdefault(key, []).append(i)
    return list(groups.values())


class Universe:
    pass


def build(shape, extra_attrs=None):
    """Build the universe.  Symbolic mode: private fields written directly; native mode:
    through the public API (canonical construction sequence)."""
    N, nW = shape['N'], shape['nW']
    U = Universe()
    U.shape = shape
    U.N, U.nW = N, nW
    U.ids = [fresh_int(f'id{i}', ID_LO, ID_HI) for i in range(N)]
    U.keys = [fresh_int(f'key{i}', KEY_LO, KEY_HI) for i in range(N)]
    if not is_native():
        for g in id_domains(shape):
            if len(g) > 1:
                core.ctx().add(z3.Distinct(*[U.ids[i].e for i in g]))
    U.wbss = [WBS() for _ in range(nW)]
    U.tasks = [Task(U.ids[i], name=f't{i}') for i in range(N)]
    for i, t in enumerate(U.tasks):
        t.key = U.keys[i]
    nk = shape.get('none_key')
    if nk is not None:
        U.tasks[nk].key = None  # a sort key that cannot be compared with the others
    par = shape['parent']
    if is_native():
        for i in range(N):
            if par[i] != -1:
                U.tasks[i].parent = U.tasks[par[i]]
        for i in range(N):
            if par[i] == -1 and shape['home'][i]:
                U.wbss[shape['home'][i] - 1].roots.append(U.tasks[i])
        for j in range(N):
            preds = [U.tasks[a] for a, b in shape['links'] if b == j]
            if preds:
                U.tasks[j].predecessors = preds
    else:
        for i, t in enumerate(U.tasks):
            r = tree_root(shape, i)
            h = shape['home'][r]
            w = U.wbss[h - 1] if h else None
            t._Task__wbs = w
            if par[i] != -1:
                t._Task__parent = U.tasks[par[i]]
            elif w is not None:
                t._Task__parent = w._root()
            else:
                t._Task__parent = None
            t._Task__children = [U.tasks[c] for c in range(N) if par[c] == i]
            t._Task__predecessors = [U.tasks[a] for a, b in shape['links'] if b == i]
            t._Task__successors = [U.tasks[b] for a, b in shape['links'] if a == i]
        for wi, w in enumerate(U.wbss):
            w._root()._Task__children = [U.tasks[i] for i in range(N) if par[i] == -1 and shape['home'][i] == wi + 1]
    U.index = {id(t): i for i, t in enumerate(U.tasks)}
    U.windex = {id(w): k + 1 for k, w in enumerate(U.wbss)}
    return U


# ---------------------------------------------------------------------------
# snapshots through the public getters

def _ix(U, t):
    if t is None:
        return None
    return U.index.get(id(t), '?')


def snapshot(U):
    S = {'par': [], 'ch': [], 'pr': [], 'su': [], 'w': [], 'roots': [], 'key': [], 'id': []}
    for t in U.tasks:
        S['par'].append(_ix(U, t.parent))
        S['ch'].append([_ix(U, c) for c in t.children])
        S['pr'].append([_ix(U, c) for c in t.predecessors])
        S['su'].append([_ix(U, c) for c in t.successors])
        w = t.wbs
        S['w'].append(0 if w is None else U.windex.get(id(w), -1))
        S['key'].append(id(t.__dict__.get('key')))
        S['id'].append(id(t.id))
    for w in U.wbss:
        S['roots'].append([_ix(U, c) for c in w.roots])
    return S


def copy_snap(S):
    return {'par': list(S['par']), 'ch': [list(x) for x in S['ch']], 'pr': [list(x) for x in S['pr']],
            'su': [list(x) for x in S['su']], 'w': list(S['w']), 'roots': [list(x) for x in S['roots']],
            'key': list(S['key']), 'id': list(S['id'])}


SKIP_W = bool(__import__('os').environ.get('SKIP_W'))


def snap_diff(A, B, wild=(), link_sets=False):
    """First difference between snapshots or None.  `wild`: list targets whose order is
    not compared (membership still is)."""
    for k in ('par', 'key', 'id') if SKIP_W else ('par', 'w', 'key', 'id'):
        if A[k] != B[k]:
            return f'{k}: {A[k]} != {B[k]}'
    for i in range(len(A['ch'])):
        a, b = A['ch'][i], B['ch'][i]
        if ('T', i) in wild:
            if sorted(map(str, a)) != sorted(map(str, b)):
                return f'children[{i}] members: {a} != {b}'
        elif a != b:
            return f'children[{i}]: {a} != {b}'
    for k in range(len(A['roots'])):
        a, b = A['roots'][k], B['roots'][k]
        if ('W', k + 1) in wild:
            if sorted(map(str, a)) != sorted(map(str, b)):
                return f'roots[{k + 1}] members: {a} != {b}'
        elif a != b:
            return f'roots[{k + 1}]: {a} != {b}'
    for nm in ('pr', 'su'):
        for i in range(len(A[nm])):
            a, b = A[nm][i], B[nm][i]
            if link_sets:
                if set(map(str, a)) != set(map(str, b)):
                    return f'{nm}[{i}] set: {a} != {b}'
            elif a != b:
                return f'{nm}[{i}]: {a} != {b}'
    return None


# ---------------------------------------------------------------------------
# invariant predicates on a snapshot (identity based, cycle safe)

def inv_hierarchy(S):
    """C01 hierarchy clause.  Returns None or a description of the breach."""
    N = len(S['par'])
    for t in range(N):
        p = S['par'][t]
        holders = [q for q in range(N) for c in S['ch'][q] if c == t]
        if p is None:
            if holders:
                return f'task {t} reports no parent but is listed in children of {holders}'
        else:
            if p == '?':
                return f'task {t} has a parent outside the universe'
            if holders.count(p) != 1 or len(holders) != 1:
                return f'task {t} reports parent {p} but is listed in children of {holders}'
        inroots = [k + 1 for k, r in enumerate(S['roots']) for c in r if c == t]
        if len(inroots) > 1:
            return f'task {t} listed {len(inroots)} times among WBS roots {inroots}'
        if inroots and p is not None:
            return f'task {t} is a WBS root but reports parent {p}'
        # own ancestor
        seen = set()
        q = p
        while q is not None and q != '?':
            if q == t:
                return f'task {t} is its own ancestor'
            if q in seen:
                break
            seen.add(q)
            q = S['par'][q]
    return None


def ancestors_of(S, t):
    out = []
    q = S['par'][t]
    while q is not None and q != '?' and q not in out and q != t:
        out.append(q)
        q = S['par'][q]
    return out


def inv_links(S):
    """C01 dependency clause."""
    N = len(S['par'])
    for a in range(N):
        for b in range(N):
            if (b in S['pr'][a]) != (a in S['su'][b]):
                return f'asymmetric link: {b} in pred({a})={b in S["pr"][a]} but {a} in succ({b})={a in S["su"][b]}'
        if a in S['pr'][a] or a in S['su'][a]:
            return f'self link on {a}'
        if '?' in S['pr'][a] or '?' in S['su'][a]:
            return f'link of {a} to a task outside the universe'
        anc = ancestors_of(S, a)
        for b in S['pr'][a] + S['su'][a]:
            if b in anc:
                return f'link between {a} and its ancestor {b}'
    # cycles
    color = {}

    def dfs(u):
        color[u] = 1
        for v in S['su'][u]:
            if color.get(v) == 1:
                return True
            if v not in color and dfs(v):
                return True
        color[u] = 2
        return False

    for a in range(N):
        if a not in color and dfs(a):
            return 'dependency cycle'
    return None


def reach_from_roots(S, k):
    out = []
    seen = set()

    def rec(t):
        if t in seen or t == '?':
            return
        seen.add(t)
        out.append(t)
        for c in S['ch'][t]:
            rec(c)

    for r in S['roots'][k]:
        rec(r)
    return out


def inv_owner(S):
    """C11: t.wbs is X  <=>  t reachable from X's roots."""
    N = len(S['par'])
    for k in range(len(S['roots'])):
        members = set(reach_from_roots(S, k))
        for t in range(N):
            if (S['w'][t] == k + 1) != (t in members):
                return f'task {t} reports owner {S["w"][t]} but reachable-from-WBS{k + 1}={t in members}'
    for t in range(N):
        if S['w'][t] == -1:
            return f'task {t} reports an unknown WBS as owner'
    return None


# ---------------------------------------------------------------------------
# reference effects (written from the statements of C16 / C11)

def sub(S, t):
    out = []

    def rec(u):
        if u in out or u == '?':
            return
        out.append(u)
        for c in S['ch'][u]:
            rec(c)

    rec(t)
    return out


def detach(S, t):
    p = S['par'][t]
    if p is not None and p != '?':
        while t in S['ch'][p]:
            S['ch'][p].remove(t)
    for r in S['roots']:
        while t in r:
            r.remove(t)
    S['par'][t] = None


def setw(S, t, w):
    for u in sub(S, t):
        S['w'][u] = w


def release(S, t):
    detach(S, t)
    setw(S, t, 0)


def attach(S, tgt, t):
    detach(S, t)
    if tgt[0] == 'T':
        S['ch'][tgt[1]].append(t)
        S['par'][t] = tgt[1]
        setw(S, t, S['w'][tgt[1]])
    else:
        S['roots'][tgt[1] - 1].append(t)
        S['par'][t] = None
        setw(S, t, tgt[1])


def getlist(S, tgt):
    return S['ch'][tgt[1]] if tgt[0] == 'T' else S['roots'][tgt[1] - 1]


def real_list(U, tgt):
    st = getattr(U, 'stale', None)
    if st is not None and tgt in st:
        return st[tgt]  # a list view obtained before an earlier call (h_stale_view)
    return U.tasks[tgt[1]].children if tgt[0] == 'T' else U.wbss[tgt[1] - 1].roots


def link_view(U, t, is_pred):
    st = getattr(U, 'stale_links', None)
    if st is not None and (t, is_pred) in st:
        return st[(t, is_pred)]  # a predecessors/successors view obtained before an earlier call (h_stale_link_view)
    return U.tasks[t].predecessors if is_pred else U.tasks[t].successors


def pick_task(U, name='t'):
    if getattr(U, 'force_t', None) is not None:
        return U.force_t
    return choose(name, U.N)


def link_add(S, succ, pred):
    if pred not in S['pr'][succ]:
        S['pr'][succ].append(pred)
    if succ not in S['su'][pred]:
        S['su'][pred].append(succ)


def link_del(S, succ, pred):
    while pred in S['pr'][succ]:
        S['pr'][succ].remove(pred)
    while succ in S['su'][pred]:
        S['su'][pred].remove(succ)


# ---------------------------------------------------------------------------
# operations

def seqs(name, N, maxlen):
    ln = choose(name + 'len', maxlen + 1)
    return [choose(f'{name}{k}', N) for k in range(ln)]


ALL_OPS = ['set_parent', 'set_children', 'ch_append', 'ch_insert', 'ch_remove', 'ch_move', 'ch_sort',
           'ch_reorder', 'ch_remove_all', 'set_preds', 'pred_append', 'pred_remove', 'set_succs', 'succ_append',
           'succ_remove', 'floordiv', 'lshift', 'rshift', 'list_lshift', 'list_rshift', 'wbs_remove',
           'wbs_remove_all', 'pred_remove_all', 'succ_remove_all']

LINK_OPS = ['set_preds', 'pred_append', 'pred_remove', 'set_succs', 'succ_append', 'succ_remove', 'lshift', 'rshift',
            'pred_remove_all', 'succ_remove_all']

HIER_OPS = ['set_parent', 'set_children', 'ch_append', 'ch_insert', 'ch_remove', 'ch_move', 'ch_sort', 'ch_reorder', 'ch_remove_all',
            'floordiv', 'wbs_remove', 'wbs_remove_all']

ATTACH_OPS = ['set_parent', 'set_children', 'ch_append', 'ch_insert', 'ch_remove', 'ch_move', 'ch_remove_all',
              'floordiv', 'wbs_remove', 'wbs_remove_all']


class Op:
    """One concrete call: `run()` performs it on the real objects; `spec(S)` mutates a
    copy of the pre-snapshot into the expected post-state and returns
    (wild_targets, extra_checks) or None when the statement defines nothing."""

    def __init__(self, desc, run, spec, named=(), subject=None):
        self.desc = desc
        self.run = run
        self.spec = spec
        self.named = named
        self.subject = subject


def pick_target(U, with_wbs=True):
    if getattr(U, 'force_tgt', None) is not None:
        return U.force_tgt
    n = U.N + (U.nW if with_wbs else 0)
    k = choose('tgt', n)
    return ('T', k) if k < U.N else ('W', k - U.N + 1)


def pick_op(U, kinds, seqlen):
    kind = kinds[choose('op', len(kinds))]
    N = U.N
    T = U.tasks
    if kind == 'set_parent':
        t = choose('t', N)
        x = choose('x', N + 1)
        if x == N:
            def run():
                T[t].parent = None

            def spec(S):
                amb = set()
                if S['w'][t]:
                    tgt = ('W', S['w'][t])
                    if t in getlist(S, tgt):
                        amb.add(tgt)
                    attach(S, tgt, t)
                else:
                    detach(S, t)
                return amb, []

            return Op(f't{t}.parent = None', run, spec)

        def run():
            T[t].parent = T[x]

        def spec(S):
            amb = {('T', x)} if S['par'][t] == x else set()
            attach(S, ('T', x), t)
            return amb, []

        return Op(f't{t}.parent = t{x}', run, spec)

    if kind == 'set_children':
        tgt = pick_target(U)
        sq = seqs('s', N, seqlen)

        def run():
            if tgt[0] == 'T':
                T[tgt[1]].children = [T[i] for i in sq]
            else:
                U.wbss[tgt[1] - 1].roots = [T[i] for i in sq]

        def spec(S):
            old = list(getlist(S, tgt))
            for o in old:
                if o not in sq:
                    release(S, o)
            for o in old:
                if o in sq:
                    detach(S, o)
            for v in sq:
                attach(S, tgt, v)
            wild = {tgt} if len(set(sq)) != len(sq) else set()
            return wild, []

        return Op(f'{tgt}.children = {sq}', run, spec)

    if kind == 'ch_append':
        tgt = pick_target(U)
        x = choose('x', N)

        def run():
            real_list(U, tgt).append(T[x])

        def spec(S):
            attach(S, tgt, x)
            return set(), []

        return Op(f'{tgt}.children.append(t{x})', run, spec)

    if kind == 'ch_insert':
        tgt = pick_target(U)
        x = choose('x', N)
        i = choose('i', N + 3) - 1

        def run():
            real_list(U, tgt).insert(i, T[x])

        def spec(S):
            lst = getlist(S, tgt)
            was_member = x in lst
            ln = len(lst)
            attach(S, tgt, x)
            lst = getlist(S, tgt)
            if was_member or i < 0 or i > ln:
                return {tgt}, []
            lst.remove(x)
            lst.insert(i, x)
            return set(), []

        return Op(f'{tgt}.children.insert({i}, t{x})', run, spec)

    if kind == 'ch_remove':
        tgt = pick_target(U)
        x = choose('x', N)
        box = {}

        def run():
            box['ret'] = real_list(U, tgt).remove(T[x])

        def spec(S):
            if x in getlist(S, tgt):
                release(S, x)
                return set(), [('returns True', lambda: box['ret'] is True)]
            return set(), [('returns False', lambda: box['ret'] is False)]

        return Op(f'{tgt}.children.remove(t{x})', run, spec)

    if kind == 'ch_move':
        tgt = pick_target(U)
        nmove = 1 if seqlen < 3 else 1 + choose('nmove', 2)
        xs = [choose(f'x{k}', N) for k in range(nmove)]
        mode = choose('mode', 4)  # 0 before, 1 after, 2 none, 3 both
        y = choose('y', N) if mode != 2 else None
        y2 = choose('y2', N) if mode == 3 else None
        aslist = nmove > 1 or choose('aslist', 2) == 1

        def run():
            arg = [T[i] for i in xs] if aslist else T[xs[0]]
            if mode == 0:
                real_list(U, tgt).move(arg, before=T[y])
            elif mode == 1:
                real_list(U, tgt).move(arg, after=T[y])
            elif mode == 2:
                real_list(U, tgt).move(arg)
            else:
                real_list(U, tgt).move(arg, before=T[y], after=T[y2])

        def spec(S):
            lst = getlist(S, tgt)
            if mode >= 2 or any(x not in lst for x in xs) or y not in lst:
                return None  # the statement defines an effect only for before/after moves of members
            if nmove > 1 or xs[0] == y:
                return {tgt}, []
            x = xs[0]
            lst.remove(x)
            lst.insert(lst.index(y) + (1 if mode == 1 else 0), x)
            return set(), []

        return Op(f'{tgt}.children.move({xs}, mode={mode}, y={y}, y2={y2})', run, spec)

    if kind == 'ch_sort':
        tgt = pick_target(U)
        rev = choose('rev', 2) == 1

        def run():
            real_list(U, tgt).sort('key', reverse=rev)

        def spec(S):
            pre = list(getlist(S, tgt))

            def order_ok():
                post = [U.index.get(id(c), '?') for c in real_list(U, tgt)]
                conds = []
                for a in range(len(post)):
                    for b in range(a + 1, len(post)):
                        ka, kb = U.keys[post[a]], U.keys[post[b]]
                        if rev:
                            # descending, and stable: equal keys keep their previous relative order
                            conds.append(Or(ka > kb, And(ka == kb, pre.index(post[a]) < pre.index(post[b]))))
                        else:
                            conds.append(Or(ka < kb, And(ka == kb, pre.index(post[a]) < pre.index(post[b]))))
                return And(*conds) if conds else True

            return {tgt}, [('sorted by key (stable)' if not rev else 'sorted by key descending (stable)', order_ok)]

        return Op(f'{tgt}.children.sort(key, reverse={rev})', run, spec)

    if kind == 'ch_reorder':
        tgt = pick_target(U)
        ln = choose('rlen', min(seqlen, 2) + 1)
        picks = [choose(f'r{k}', N + 1) for k in range(ln)]
        q = fresh_int('q', ID_LO, ID_HI) if N in picks else None
        ids = [U.ids[p] if p < N else q for p in picks]

        def run():
            real_list(U, tgt).reorder(list(ids))

        def spec(S):
            lst = getlist(S, tgt)
            first = []
            for v in ids:
                hit = None
                for m in lst:
                    if m != '?' and bool(U.ids[m] == v):
                        hit = m
                        break
                if hit is None or hit in first:
                    return None  # unknown or repeated id: nothing documented
                first.append(hit)
            rest = [m for m in lst if m not in first]
            lst[:] = first + rest
            return set(), []

        return Op(f'{tgt}.children.reorder(picks={picks})', run, spec)

    if kind == 'ch_remove_all':
        tgt = pick_target(U)
        v = fresh_int('fv', KEY_LO - 1, KEY_HI + 1)
        box = {}

        def run():
            box['ret'] = real_list(U, tgt).remove_all(key_lt_=v)

        def spec(S):
            lst = list(getlist(S, tgt))
            gone = [m for m in lst if m != '?' and bool(U.keys[m] < v)]
            for m in gone:
                release(S, m)
            return set(), [('returns the removed tasks', lambda: [U.index.get(id(c)) for c in box['ret']] == gone)]

        return Op(f'{tgt}.children.remove_all(key_lt_=v)', run, spec)

    if kind in ('set_preds', 'set_succs'):
        t = choose('t', N)
        sq = seqs('s', N, seqlen)
        is_pred = kind == 'set_preds'

        def run():
            if is_pred:
                T[t].predecessors = [T[i] for i in sq]
            else:
                T[t].successors = [T[i] for i in sq]

        def spec(S):
            if is_pred:
                for o in list(S['pr'][t]):
                    link_del(S, t, o)
                for v in sq:
                    link_add(S, t, v)
            else:
                for o in list(S['su'][t]):
                    link_del(S, o, t)
                for v in sq:
                    link_add(S, v, t)
            return set(), []

        return Op(f't{t}.{"predecessors" if is_pred else "successors"} = {sq}', run, spec)

    if kind in ('pred_append', 'succ_append', 'pred_remove', 'succ_remove'):
        t = pick_task(U)
        x = choose('x', N)
        is_pred = kind.startswith('pred')
        is_app = kind.endswith('append')
        box = {}

        def run():
            lst = link_view(U, t, is_pred)
            box['ret'] = lst.append(T[x]) if is_app else lst.remove(T[x])

        def spec(S):
            s_, p_ = (t, x) if is_pred else (x, t)
            if is_app:
                link_add(S, s_, p_)
                return set(), []
            had = p_ in S['pr'][s_] if is_pred else s_ in S['su'][p_]
            link_del(S, s_, p_) if had else None
            return set(), [(f'returns {had}', lambda: box['ret'] is had)]

        return Op(f't{t}.{"predecessors" if is_pred else "successors"}.{"append" if is_app else "remove"}(t{x})', run,
                  spec)

    if kind in ('pred_remove_all', 'succ_remove_all'):
        t = pick_task(U)
        v = fresh_int('fv', KEY_LO - 1, KEY_HI + 1)
        is_pred = kind.startswith('pred')
        box = {}

        def run():
            lst = link_view(U, t, is_pred)
            box['ret'] = lst.remove_all(key_lt_=v)

        def spec(S):
            cur = list(S['pr'][t] if is_pred else S['su'][t])
            gone = [m for m in cur if m != '?' and bool(U.keys[m] < v)]
            for m in gone:
                if is_pred:
                    link_del(S, t, m)
                else:
                    link_del(S, m, t)
            return set(), [('returns the removed tasks', lambda: [U.index.get(id(c)) for c in box['ret']] == gone)]

        return Op(f't{t}.{"predecessors" if is_pred else "successors"}.remove_all(key_lt_=v)', run, spec)

    if kind == 'floordiv':
        tgt = pick_target(U)
        aslist = choose('aslist', 2)
        sq = seqs('s', N, seqlen) if aslist else [choose('x', N)]

        def run():
            arg = [T[i] for i in sq] if aslist else T[sq[0]]
            if tgt[0] == 'T':
                T[tgt[1]] // arg
            else:
                U.wbss[tgt[1] - 1] // arg

        def spec(S):
            for v in sq:
                attach(S, tgt, v)
            return set(), []

        return Op(f'{tgt} // {sq if aslist else "t%d" % sq[0]}', run, spec)

    if kind in ('lshift', 'rshift'):
        t = choose('t', N)
        aslist = choose('aslist', 2)
        sq = seqs('s', N, seqlen) if aslist else [choose('x', N)]
        is_pred = kind == 'lshift'

        def run():
            arg = [T[i] for i in sq] if aslist else T[sq[0]]
            if is_pred:
                T[t] << arg
            else:
                T[t] >> arg

        def spec(S):
            for v in sq:
                if is_pred:
                    link_add(S, t, v)
                else:
                    link_add(S, v, t)
            return set(), []

        return Op(f't{t} {"<<" if is_pred else ">>"} {sq if aslist else "t%d" % sq[0]}', run, spec)

    if kind in ('list_lshift', 'list_rshift'):
        tgt = pick_target(U)
        x = choose('x', N)
        is_pred = kind == 'list_lshift'

        def run():
            if is_pred:
                real_list(U, tgt) << T[x]
            else:
                real_list(U, tgt) >> T[x]

        def spec(S):
            for m in list(getlist(S, tgt)):
                if is_pred:
                    link_add(S, m, x)
                else:
                    link_add(S, x, m)
            return set(), []

        return Op(f'{tgt}.children {"<<" if is_pred else ">>"} t{x}', run, spec)

    if kind == 'wbs_remove':
        if U.nW == 0:
            assume(False, 'no wbs')
        w = 1 + choose('w', U.nW)
        x = choose('x', N)
        box = {}

        def run():
            box['ret'] = U.wbss[w - 1].remove(T[x])

        def spec(S):
            if S['w'][x] == w and x in reach_from_roots(S, w - 1):
                release(S, x)
                return set(), [('returns True', lambda: box['ret'] is True)]
            return set(), [('returns False', lambda: box['ret'] is False)]

        return Op(f'W{w}.remove(t{x})', run, spec)

    if kind == 'wbs_remove_all':
        if U.nW == 0:
            assume(False, 'no wbs')
        w = 1 + choose('w', U.nW)
        v = fresh_int('fv', KEY_LO - 1, KEY_HI + 1)
        box = {}

        def run():
            box['ret'] = U.wbss[w - 1].remove_all(key_lt_=v)

        def spec(S):
            members = reach_from_roots(S, w - 1)
            gone = [m for m in members if bool(U.keys[m] < v)]
            for m in gone:
                if S['w'][m] == w:
                    release(S, m)
            return set(), [('returns the matching tasks', lambda: [U.index.get(id(c)) for c in box['ret']] == gone)]

        return Op(f'W{w}.remove_all(key_lt_=v)', run, spec)

    raise ValueError(kind)


def op_subject(U, op):
    """Index of the task (or ('W', k)) whose own relations the call edits."""
    import re
    d = op.desc
    m = re.match(r"^\('T', (\d+)\)", d)
    if m:
        return int(m.group(1))
    m = re.match(r"^\('W', (\d+)\)", d) or re.match(r"^W(\d+)", d)
    if m:
        return ('W', int(m.group(1)))
    m = re.match(r"^t(\d+)", d)
    if m:
        return int(m.group(1))
    return None


def describe(shape):
    return f"parent={shape['parent']} home={shape['home']} links={shape['links']}"


# ---------------------------------------------------------------------------
# the one-step harness

def h_step(cfg):
    """Arbitrary valid state, one public mutator call, property-specific oracle."""
    import zlib
    prop = cfg['prop']
    shape = gen_shape(cfg['N'], cfg['nW'], links=cfg.get('links', True))
    if cfg.get('flat') and any(p != -1 for p in shape['parent']):
        assume(False, 'flat forests only')
    if cfg.get('none_key'):
        k = choose('none_key', cfg['N'] + 1)
        shape['none_key'] = None if k == cfg['N'] else k
    U = build(shape)
    op = pick_op(U, cfg['ops'], cfg['seqlen'])
    desc = describe(shape) + (f' none_key=t{shape["none_key"]}' if shape.get('none_key') is not None else '') + ' :: ' + op.desc
    note('desc', desc)
    note('class', zlib.crc32(desc.encode()))
    note('state', zlib.crc32(describe(shape).encode()))
    pre = snapshot(U)
    raised = None
    try:
        op.run()
    except RecursionError as e:
        raised = e
    except Exception as e:
        raised = e
    post = snapshot(U)
    rs = f' [call raised {type(raised).__name__}]' if raised is not None else ' [call returned]'
    kind = op.desc
    if prop == 'C01':
        b = inv_hierarchy(post)
        check(b is None, 'C01 hierarchy is a forest', detail=_gen(b))
        b = inv_links(post)
        check(b is None, 'C01 dependency links well-formed', detail=_gen(b))
    elif prop == 'C15':
        if raised is not None:
            d = snap_diff(pre, post)
            check(d is None, 'C15 rejected call changed state', detail=_gen(d) + ' after ' + _opkind(op.desc))
        else:
            check(True, 'C15 (call accepted)')
    elif prop == 'C16':
        if raised is None:
            exp = copy_snap(pre)
            r = op.spec(exp)
            if r is None:
                check(True, 'C16 (no documented effect for these arguments)')
            else:
                wild, extra = r
                d = snap_diff(exp, post, wild=wild, link_sets=True)
                check(d is None, 'C16 effect differs from the documented one', detail=_opkind(op.desc) + ': ' + _gen(d))
                for lbl, f in extra:
                    check(f(), 'C16 ' + lbl, detail=_opkind(op.desc))
        else:
            check(True, 'C16 (call rejected)')
    elif prop == 'C11':
        b = inv_owner(post)
        check(b is None, 'C11 owner report differs from membership', detail=_gen(b) + ' after ' + _opkind(op.desc) + rs)
    elif prop == 'C05':
        if raised is None:
            # ids pairwise distinct inside every tree / WBS of the post-state
            N = U.N
            for a in range(N):
                for b in range(a + 1, N):
                    same = False
                    ra, rb = _top(post, a), _top(post, b)
                    if ra == rb:
                        same = True
                    for k in range(U.nW):
                        m = reach_from_roots(post, k)
                        if a in m and b in m:
                            same = True
                    if same:
                        check(U.ids[a] != U.ids[b], 'C05 equal ids inside one tree/WBS after an accepted call',
                              detail=_opkind(op.desc))
            # WBS.tasks lists every member exactly once, depth first
            for k, wk in enumerate(U.wbss):
                try:
                    order = [U.index.get(id(t), '?') for t in wk.tasks]
                except RecursionError:
                    order = ['?']
                check(len(set(order)) == len(order), 'C05 WBS.tasks lists a member more than once', detail=_opkind(op.desc))
                check(order == reach_from_roots(post, k), 'C05 WBS.tasks is not the depth-first enumeration', detail=_opkind(op.desc))
            check(True, 'C05 (accepted)')
        else:
            check(True, 'C05 (rejected)')
    else:
        raise ValueError(prop)


def _top(S, t):
    seen = set()
    while S['par'][t] is not None and S['par'][t] != '?' and t not in seen:
        seen.add(t)
        t = S['par'][t]
    return t


def _gen(s):
    """Strip task indices from a breach description -> generic signature."""
    import re
    if s is None:
        return ''
    return re.sub(r'\d+', '#', str(s))[:120]


def _opkind(desc):
    import re
    m = re.match(r"^(\('\w', \d+\)|t\d+|W\d+)?\s*[.]?([\w.]*|//|<<|>>)", desc)
    s = re.sub(r'\d+', '#', desc)
    return s[:60]


# ---------------------------------------------------------------------------
# C05: lookup by id and DFS enumeration

def h_lookup(cfg):
    import zlib
    shape = gen_shape(cfg['N'], cfg['nW'], links=False)
    U = build(shape)
    note('desc', describe(shape) + ' :: W1[q], W1.tasks')
    note('class', zlib.crc32(describe(shape).encode()))
    W = U.wbss[0]
    S = snapshot(U)
    members = reach_from_roots(S, 0)
    q = fresh_int('q', ID_LO, ID_HI)
    r = None
    raised = None
    try:
        r = W[q]
    except RuntimeError as e:
        raised = e
    except Exception as e:
        check(False, 'C05 lookup raised another exception type', detail=type(e).__name__)
        return
    if raised is None:
        i = U.index.get(id(r))
        check(i is not None and i in members, 'C05 lookup returned a non-member')
        if i is not None:
            check(U.ids[i] == q, 'C05 lookup returned a task with another id')
    else:
        for m in members:
            check(U.ids[m] != q, 'C05 lookup raised although a member has that id')
    order = [U.index.get(id(t), '?') for t in W.tasks]
    check(order == members, 'C05 WBS.tasks is not the depth-first enumeration', detail=f'{order} vs {members}')
    check(len(W.tasks) == len(members), 'C05 len(WBS.tasks)')


def h_lookup_mixed(cfg):
    """Ids of two types (int and str) inside one WBS: lookup is exact in value AND type.  The type of every id and of
    the key is a fork; the numeric value is symbolic in a small range; a str id is the decimal text of its value, so
    1 and '1' meet.  str() of a symbolic int forks on its value for the time of this harness (pjplan may render ids)."""
    import zlib
    N = cfg['N']
    lo, hi = cfg.get('range', (0, 2))
    kinds = [choose(f'kind{i}', 2) for i in range(N)]
    parent = [-1] * N
    for i in range(1, N):
        parent[i] = choose(f'mpar{i}', i + 1) - 1
    vals = [fresh_int(f'v{i}', lo, hi) for i in range(N)]
    qkind = choose('qkind', 2)
    qv = fresh_int('q', lo, hi + 1)
    note('desc', f'mixed ids kinds={kinds} parent={parent} qkind={qkind} :: W[q]')
    note('class', zlib.crc32(repr((kinds, parent, qkind)).encode()))
    conc = lambda v: v if isinstance(v, int) else core.concretize_int(v)
    for i in range(N):
        for j in range(i):
            if kinds[i] == kinds[j]:
                assume(vals[i] != vals[j], 'ids of one type are distinct')
    ids = [vals[i] if kinds[i] == 0 else str(conc(vals[i])) for i in range(N)]
    q = qv if qkind == 0 else str(conc(qv))
    had = '__str__' in core.SymInt.__dict__
    old = core.SymInt.__dict__.get('__str__')
    if not is_native():
        core.SymInt.__str__ = lambda self: str(core.concretize_int(self))
    try:
        W = WBS()
        tasks = [Task(ids[i], name=f't{i}') for i in range(N)]
        for i in range(N):
            if parent[i] == -1:
                W.roots.append(tasks[i])
            else:
                tasks[i].parent = tasks[parent[i]]
        index = {id(t): i for i, t in enumerate(tasks)}
        check(len(W.tasks) == N, 'C05 ids of different types are different ids: all tasks are members')
        r = raised = None
        try:
            r = W[q]
        except RuntimeError as e:
            raised = e
        except Exception as e:
            check(False, 'C05 lookup raised another exception type', detail=type(e).__name__)
            return
        if raised is None:
            i = index.get(id(r))
            check(i is not None, 'C05 lookup returned a non-member')
            if i is not None:
                check(kinds[i] == qkind and bool(vals[i] == qv), 'C05 lookup returned a task with another id',
                      detail=f'key of kind {qkind}, task {i} of kind {kinds[i]}')
        else:
            for m in range(N):
                check(not (kinds[m] == qkind and bool(vals[m] == qv)), 'C05 lookup raised although a member has that id')
    finally:
        if not is_native():
            if had:
                core.SymInt.__str__ = old
            else:
                del core.SymInt.__str__


# ---------------------------------------------------------------------------
# C11: remove, then attach to another WBS

REMOVALS = ['wbs_remove', 'wbs_remove_all', 'ch_remove', 'ch_remove_all', 'set_children']


def h_remove_attach(cfg):
    import zlib
    shape = gen_shape(cfg['N'], 2, links=cfg.get('links', False))
    U = build(shape)
    op = pick_op(U, REMOVALS, cfg['seqlen'])
    desc = describe(shape) + ' :: ' + op.desc
    note('class', zlib.crc32(desc.encode()))
    pre = snapshot(U)
    try:
        op.run()
    except Exception:
        note('desc', desc)
        check(True, 'C11 (removal rejected)')
        return
    mid = snapshot(U)
    released = [t for t in range(U.N)
                if pre['w'][t] != 0 and t not in reach_from_roots(mid, 0) and t not in reach_from_roots(mid, 1)
                and mid['par'][t] is None]
    if not released:
        note('desc', desc)
        check(True, 'C11 (nothing released)')
        return
    x = released[choose('rel', len(released))]
    other = 2 if pre['w'][x] == 1 else 1
    desc += f' ; then W{other}.roots.append(t{x})'
    note('desc', desc)
    for u in sub(mid, x):
        check(mid['w'][u] == 0, 'C11 removed task still reports an owner', detail=_opkind(op.desc))
    # ids of the moved subtree differ from the ids already in the target WBS (else refusal is legitimate)
    tgt_members = reach_from_roots(mid, other - 1)
    for u in sub(mid, x):
        for m in tgt_members:
            assume(U.ids[u] != U.ids[m])
    try:
        U.wbss[other - 1].roots.append(U.tasks[x])
    except Exception as e:
        check(False, 'C11 removed task cannot be attached to another WBS', detail=type(e).__name__ + ' after ' + _opkind(op.desc))
        return
    post = snapshot(U)
    b = inv_owner(post)
    check(b is None, 'C11 owner report differs from membership', detail=_gen(b) + ' after remove+attach')
    check(x in post['roots'][other - 1], 'C11 re-attached task is not a root of the new WBS')


# ---------------------------------------------------------------------------
# validation of the state generator: direct field writes == public-API construction

def build_api(shape):
    N, nW = shape['N'], shape['nW']
    U = Universe()
    U.shape, U.N, U.nW = shape, N, nW
    U.ids = list(range(100, 100 + N))
    U.keys = [0] * N
    U.wbss = [WBS() for _ in range(nW)]
    U.tasks = [Task(U.ids[i], name=f't{i}') for i in range(N)]
    for t in U.tasks:
        t.key = 0
    par = shape['parent']
    for i in range(N):
        if par[i] != -1:
            U.tasks[i].parent = U.tasks[par[i]]
    for i in range(N):
        if par[i] == -1 and shape['home'][i]:
            U.wbss[shape['home'][i] - 1].roots.append(U.tasks[i])
    for j in range(N):
        preds = [U.tasks[a] for a, b in shape['links'] if b == j]
        if preds:
            U.tasks[j].predecessors = preds
    U.index = {id(t): i for i, t in enumerate(U.tasks)}
    U.windex = {id(w): k + 1 for k, w in enumerate(U.wbss)}
    return U


def h_generator(cfg):
    import zlib
    shape = gen_shape(cfg['N'], cfg['nW'])
    note('desc', describe(shape))
    note('class', zlib.crc32(describe(shape).encode()))
    U1 = build(shape)
    try:
        U2 = build_api(shape)
    except Exception as e:
        check(False, 'GENERATOR public API refuses to build an invariant state', detail=f'{type(e).__name__}: {e}')
        return
    a, b = snapshot(U1), snapshot(U2)
    for k in ('key', 'id'):
        a[k] = b[k] = []
    check(snap_diff(a, b) is None, 'GENERATOR direct construction differs from public-API construction',
          detail=str(snap_diff(a, b)))
    check(inv_hierarchy(a) is None and inv_links(a) is None and inv_owner(a) is None, 'GENERATOR state breaks Inv')


# ---------------------------------------------------------------------------
# two steps, the second one through a list view obtained before the first one

VIEW_OPS = ['ch_sort', 'ch_reorder', 'ch_move', 'ch_remove', 'ch_append', 'ch_insert', 'ch_remove_all']


def h_stale_view(cfg):
    """task.children / wbs.roots return view objects; a program may keep one across other calls."""
    import zlib
    shape = gen_shape(cfg['N'], cfg['nW'], links=cfg.get('links', False))
    U = build(shape)
    tgt = pick_target(U)
    view = real_list(U, tgt)  # the view a program keeps
    pre = choose('pre', 3)  # another call through a fresh view that re-orders the same list first
    pre_desc = ''
    try:
        if pre == 1:
            real_list(U, tgt).sort('key')
            pre_desc = 'sort ; '
        elif pre == 2:
            members = [c for c in real_list(U, tgt)]
            if members:
                real_list(U, tgt).reorder([members[-1].id])
                pre_desc = 'reorder ; '
    except Exception:
        pass
    op1 = pick_op(U, cfg['ops1'], 1)
    try:
        op1.run()
    except Exception:
        pass
    U.stale = {tgt: view}
    U.force_tgt = tgt
    op2 = pick_op(U, cfg.get('ops2', VIEW_OPS), 1)
    op1 = Op(pre_desc + op1.desc, None, None)
    desc = describe(shape) + ' :: ' + op1.desc + ' ; then through an earlier view: ' + op2.desc
    note('desc', desc)
    note('class', zlib.crc32(desc.encode()))
    mid = snapshot(U)
    raised = None
    try:
        op2.run()
    except Exception as e:
        raised = e
    post = snapshot(U)
    sig = _opkind(op1.desc) + ' ; ' + _opkind(op2.desc)
    for prop in cfg['props']:
        if prop == 'C01':
            b = inv_hierarchy(post)
            check(b is None, 'C01 hierarchy is a forest', detail=_gen(b) + ' [earlier view] ' + sig)
            b = inv_links(post)
            check(b is None, 'C01 dependency links well-formed', detail=_gen(b) + ' [earlier view] ' + sig)
        elif prop == 'C11':
            b = inv_owner(post)
            check(b is None, 'C11 owner report differs from membership', detail=_gen(b) + ' [earlier view] ' + sig)
        elif prop == 'C15' and raised is not None:
            d = snap_diff(mid, post)
            check(d is None, 'C15 rejected call changed state', detail=_gen(d) + ' [earlier view] ' + sig)
        elif prop == 'C16' and raised is None:
            # a call through an earlier view has the same documented effect as through a fresh one
            exp = copy_snap(mid)
            r = op2.spec(exp)
            if r is not None:
                wild, extra = r
                d = snap_diff(exp, post, wild=wild, link_sets=True)
                check(d is None, 'C16 effect differs from the documented one', detail=_gen(d) + ' [earlier view] ' + sig)


def h_stale_link_view(cfg):
    """task.predecessors / task.successors return view objects too: one kept across another call must still work."""
    import zlib
    shape = gen_shape(cfg['N'], cfg['nW'], links=True)
    if cfg.get('flat') and any(p != -1 for p in shape['parent']):
        assume(False, 'flat forests only')
    U = build(shape)
    t = choose('vt', U.N)
    is_pred = choose('vkind', 2) == 0
    view = U.tasks[t].predecessors if is_pred else U.tasks[t].successors
    op1 = pick_op(U, cfg['ops1'], 1)
    try:
        op1.run()
    except Exception:
        pass
    U.stale_links = {(t, is_pred): view}
    U.force_t = t
    kinds = ['pred_append', 'pred_remove', 'pred_remove_all'] if is_pred else ['succ_append', 'succ_remove', 'succ_remove_all']
    op2 = pick_op(U, kinds, 1)
    desc = describe(shape) + ' :: ' + op1.desc + ' ; then through an earlier ' + ('predecessors' if is_pred else 'successors') + ' view: ' + op2.desc
    note('desc', desc)
    note('class', zlib.crc32(desc.encode()))
    mid = snapshot(U)
    raised = None
    try:
        op2.run()
    except Exception as e:
        raised = e
    post = snapshot(U)
    sig = _opkind(op1.desc) + ' ; ' + _opkind(op2.desc)
    for prop in cfg['props']:
        if prop == 'C01':
            b = inv_links(post)
            check(b is None, 'C01 dependency links well-formed', detail=_gen(b) + ' [earlier link view] ' + sig)
        elif prop == 'C15' and raised is not None:
            d = snap_diff(mid, post)
            check(d is None, 'C15 rejected call changed state', detail=_gen(d) + ' [earlier link view] ' + sig)
        elif prop == 'C16' and raised is None:
            exp = copy_snap(mid)
            r = op2.spec(exp)
            if r is not None:
                wild, extra = r
                d = snap_diff(exp, post, wild=wild, link_sets=True)
                check(d is None, 'C16 effect differs from the documented one', detail=_gen(d) + ' [earlier link view] ' + sig)
                for lbl, f in extra:
                    check(f(), 'C16 ' + lbl, detail='[earlier link view] ' + sig)
