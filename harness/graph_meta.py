"""Evidence metadata shared by the graph-family checks."""
LEVEL = 'model_checking'
RULE = ('one evaluation = one symbolic path: a canonical well-formed pre-state (ordered forest x link placement x '
        'WBS homes) with symbolic task ids / sort keys, one public mutator call with enumerated arguments, and the '
        'solver-decided outcome of every id/key comparison made by pjplan on the way; distinct_nontrivial = distinct '
        '(pre-state, call) pairs whose path reached the property assertion')
EXPLANATION = ('Induction over histories: every state satisfying the representation invariant x every public mutator '
               'call within the bounds is executed on the real pjplan code with symbolic ids and sort keys; z3 decides '
               'every branch on them, infeasible sides are pruned, feasible sides are all explored; the property is '
               'asserted on the post-state obtained through the public getters, after returning and raising calls.')
BOUNDS = {
    'quick': {'tasks': 3, 'wbs': '<=2', 'argument_sequences': '<=2 with repetition', 'ids': 'symbolic in [-2^31, 2^31]',
              'sort_keys': 'symbolic in [-1000, 1000]', 'steps': '1 from any invariant state'},
    'thorough': {'tasks': '3 (2 WBS, sequences <=3) and 4 (1 WBS, sequences <=2)', 'ids': 'symbolic in [-2^31, 2^31]',
                 'sort_keys': 'symbolic in [-1000, 1000]', 'steps': '1 from any invariant state'},
}
OUTSIDE = ['more than 4 tasks / 2 WBSs', 'argument sequences longer than the bound', 'concurrent mutation',
           'Task subclasses', 'ids equal to sys.maxsize (reserved for the hidden WBS root)',
           'sort keys of non-int or mixed types', 'pre-states carrying duplicate entries in a dependency list']
STUBS = ['none (pjplan.task / pjplan.wbs run unmodified; ids and sort keys are proxy objects with a constant hash so '
         'that dict/set lookups resolve through __eq__, i.e. through solver decisions)']
ASSUMPTIONS = ['representation invariant describes exactly the reachable states (pre-states are written into the '
               'private fields directly; `./check selftest` rebuilds every one of them through the public API and '
               'compares)', 'z3 answers are correct', 'ids != sys.maxsize']
