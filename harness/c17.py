"""C17 - calendars and the availability search mean exactly what they say."""
import zlib

from symx import (check, check_all, choose, assume, note, fresh_int, fresh_real, And, Or, Not, dt, DAY_US, is_native)
from symx.stubs import clock_and_dates
from harness.sched import MON, day_of, us_of

from pjplan import WeeklyCalendar, DirectCalendar, FixedCalendar, Resource

PROPERTY = 'C17'
LEVEL = 'other'
EXPLANATION = ('Bounded symbolic execution of pjplan.calendar / pjplan.resource with SMT: calendar expression trees '
               '(operators + - * / | over weekly, dated, fixed calendars and numbers) are built from the real classes with '
               'symbolic capacities, validity bounds with symbolic time of day and a symbolic query instant; the value '
               'returned by the real code is compared with a 40-line reference evaluator written from the statement '
               '(solver query per path). Constructor validation and the availability search are decided the same way.')
RULE = ('one evaluation = one symbolic path (expression shape, leaf kinds, validity bounds, query day forked; capacities, '
        'times of day, horizon symbolic); distinct_nontrivial = fork classes that posed an assertion query')
BOUNDS = {'quick': {'tree_depth': 2, 'capacities': 'symbolic rationals (1/4 grid) in [0, 16]', 'query_days': 'menu around validity bounds',
                    'search_horizon': 'symbolic 0..8'},
          'thorough': {'tree_depth': 3, 'search_horizon': 'symbolic 0..10'}}
OUTSIDE = ['FuncCalendar with arbitrary callables', 'deeper nesting', 'horizons > 10', 'numbers as left operand (not supported by the API)',
           'the value of a quotient on a date where the divisor calendar yields 0 (statement defines nothing)']
STUBS = ['datetime in pjplan.calendar / pjplan.resource -> symx (day, microsecond) model']
ASSUMPTIONS = ['datetime model agrees with CPython', 'z3 answers are correct (products/quotients of two symbolic capacities are non-linear queries)']

D0 = MON + 7  # queries happen in the second week; validity bounds sit around it


# ---- leaves: (real calendar object, reference function date -> value|None)

def leaf(kind, tag):
    if kind == 'W':  # weekly, no bounds
        caps = {i: fresh_real(f'{tag}w{i}', 0, 16) for i in range(7)}
        return WeeklyCalendar(units_per_day=dict(caps)), lambda d: caps[(day_of(d) - MON) % 7]
    if kind in ('Ws', 'We', 'Wse'):
        caps = {i: fresh_real(f'{tag}w{i}', 0, 16) for i in range(7)}
        s = dt(D0 + 1, fresh_int(f'{tag}s_us', 0, DAY_US - 1)) if 's' in kind else None
        e = dt(D0 + 3, fresh_int(f'{tag}e_us', 0, DAY_US - 1)) if 'e' in kind else None

        def ref(d):
            if s is not None and bool(d < s):
                return None
            if e is not None and bool(d > e):
                return None
            return caps[(day_of(d) - MON) % 7]

        return WeeklyCalendar(start=s, end=e, units_per_day=dict(caps)), ref
    if kind == 'D':
        vals = {D0 + 1: fresh_real(f'{tag}d1', 0, 16), D0 + 2: 0, D0 + 4: fresh_real(f'{tag}d4', 0, 16)}
        return DirectCalendar({dt(k, fresh_int(f'{tag}dk{k - D0}', 0, DAY_US - 1)): v for k, v in vals.items()}), \
            lambda d: vals.get(day_of(d))
    if kind in ('F', 'Fse'):
        u = fresh_real(f'{tag}f', 0, 16)
        s = dt(D0 + 1, fresh_int(f'{tag}fs_us', 0, DAY_US - 1)) if kind == 'Fse' else None
        e = dt(D0 + 3, fresh_int(f'{tag}fe_us', 0, DAY_US - 1)) if kind == 'Fse' else None

        def ref(d):
            if s is not None and bool(d < s):
                return 0
            if e is not None and bool(d > e):
                return 0
            return u

        return FixedCalendar(u, s, e), ref
    if kind.startswith('N'):
        k = {'N0': 0, 'N1': 1, 'N2': 2, 'Nh': 0.5}[kind]
        return k, lambda d: k
    raise ValueError(kind)


def combine(op, a, b):
    ca, ra = a
    cb, rb = b
    if op == '+':
        c = ca + cb
    elif op == '-':
        c = ca - cb
    elif op == '*':
        c = ca * cb
    elif op == '/':
        c = ca / cb
    else:
        c = ca | cb

    def ref(d):
        x, y = ra(d), rb(d)
        if op == '|':
            for v in (x, y):
                if v is not None and bool(v > 0):
                    return v
            return None
        vals = [v for v in (x, y) if v is not None]
        if not vals:
            return None
        r = vals[0]
        for v in vals[1:]:
            if op == '+':
                r = r + v
            elif op == '-':
                r = r - v
            elif op == '*':
                r = r * v
            else:
                assume(Not(v == 0), 'divisor value 0 on the queried date')
                r = r / v
        if op == '-' and bool(r < 0):
            return None
        return r

    return c, ref


def gen_tree(cfg, depth, tag, must_be_calendar):
    kinds = cfg['leaves'] if must_be_calendar is False else [k for k in cfg['leaves'] if not k.startswith('N')]
    n_leaf = len(kinds)
    total = n_leaf + (len(cfg['ops']) if depth > 0 else 0)
    k = choose(f'{tag}node', total)
    if k < n_leaf:
        return kinds[k], leaf(kinds[k], tag)
    op = cfg['ops'][k - n_leaf]
    ln, l = gen_tree(cfg, depth - 1, tag + 'l', True)
    rn, r = gen_tree(cfg, depth - 1, tag + 'r', False)
    if op == '/' and rn == 'N0':
        assume(False, 'division by the number zero is validation, not algebra')
    return f'({ln}{op}{rn})', combine(op, l, r)


def same_value(a, b):
    if a is None or b is None:
        return a is None and b is None
    return a == b


def h_algebra(cfg):
    from symx.xdt import XDateTime
    with clock_and_dates(None, modules=['pjplan.calendar', 'pjplan.resource']):
        name, (cal, ref) = gen_tree(cfg, cfg['depth'], 't', True)
        qd = cfg['days'][choose('qday', len(cfg['days']))]
        q = dt(D0 + qd, fresh_int('q_us', 0, DAY_US - 1))
        note('desc', f'{name} @ D0+{qd}')
        note('class', zlib.crc32(f'{name}@{qd}'.encode()))
        try:
            got = cal.get_available_units(q)
        except ZeroDivisionError:
            assume(False, 'divisor value 0 on the queried date')
        exp = ref(q)
        check(same_value(got, exp), 'C17 calendar expression value differs from the operator applied to the operands',
              detail=name.replace('l', '').replace('r', ''))
        # resource view: 0, never None
        r = Resource('x', cal).get_available_units(q)
        check(r is not None, 'C17 resource reports None')
        check(same_value(r, exp if exp is not None else 0), 'C17 resource value differs from its calendar')


def h_validation(cfg):
    with clock_and_dates(None, modules=['pjplan.calendar', 'pjplan.resource']):
        case = choose('case', 9)
        raised = None
        expect = None
        try:
            if case == 0:
                wd = fresh_int('weekday', -3, 9)
                note('desc', 'WeeklyCalendar(days=[wd, 2], units_per_day=8)')
                expect = Or(wd < 0, wd > 6)
                WeeklyCalendar(days=[wd, 2], units_per_day=8)
            elif case == 1:
                u = [-1, -0.5, 0, 3, 2.5][choose('u', 5)]
                note('desc', f'WeeklyCalendar(days=[0,1], units_per_day={u})')
                expect = u < 0
                WeeklyCalendar(days=[0, 1], units_per_day=u)
            elif case == 2:
                a, b = fresh_real('ua', -4, 8), fresh_real('ub', -4, 8)
                note('desc', 'WeeklyCalendar(units_per_day={0: a, 3: b})')
                expect = Or(a < 0, b < 0)
                WeeklyCalendar(units_per_day={0: a, 3: b})
            elif case == 3:
                k = [-1, 7, 0, 6][choose('k', 4)]
                note('desc', f'WeeklyCalendar(units_per_day={{{k}: 4}})')
                expect = k < 0 or k > 6
                WeeklyCalendar(units_per_day={k: 4})
            elif case == 4:
                sd, ed = choose('sd', 3), choose('ed', 3)
                s = dt(D0 + sd, fresh_int('s_us', 0, DAY_US - 1))
                e = dt(D0 + ed, fresh_int('e_us', 0, DAY_US - 1))
                note('desc', f'WeeklyCalendar(start=D0+{sd}, end=D0+{ed}, days=[0], units_per_day=8)')
                expect = s > e
                WeeklyCalendar(start=s, end=e, days=[0], units_per_day=8)
            elif case == 5:
                sd, ed = choose('sd', 3), choose('ed', 3)
                s = dt(D0 + sd, fresh_int('s_us', 0, DAY_US - 1))
                e = dt(D0 + ed, fresh_int('e_us', 0, DAY_US - 1))
                note('desc', f'FixedCalendar(3, start=D0+{sd}, end=D0+{ed})')
                expect = s > e
                FixedCalendar(3, s, e)
            elif case == 6:
                u = fresh_real('u', -4, 8)
                note('desc', 'FixedCalendar(u)')
                expect = u < 0
                FixedCalendar(u)
            elif case == 7:
                u = fresh_real('u', -4, 8)
                note('desc', 'DirectCalendar({day: u})')
                expect = u < 0
                DirectCalendar({dt(D0, 0): 4, dt(D0 + 1, 0): u})
            else:
                z = [0, 0.0, 2, 0.5][choose('z', 4)]
                kind = ['W', 'D', 'F'][choose('lk', 3)]
                note('desc', f'{kind} / {z}')
                expect = z == 0
                c, _ = leaf(kind, 'v')
                c / z
        except RuntimeError as ex:
            raised = ex
        except Exception as ex:
            check(False, 'C17 definition rejected with an exception other than RuntimeError', detail=type(ex).__name__)
            return
        note('class', case * 10 + (0 if raised is None else 1))
        if raised is not None:
            check(expect, 'C17 valid definition rejected')
        else:
            check(Not(expect) if not isinstance(expect, bool) else (not expect), 'C17 invalid definition accepted',
                  detail=f'case {case}')


def h_search(cfg):
    with clock_and_dates(None, modules=['pjplan.calendar', 'pjplan.resource']):
        name, (cal, ref) = gen_tree(cfg, cfg['depth'], 't', True)
        direction = [1, -1][choose('dir', 2)]
        sd = cfg['days'][choose('sday', len(cfg['days']))]
        start = dt(D0 + sd, fresh_int('start_us', 0, DAY_US - 1))
        horizon = fresh_int('max_days', 0, cfg['horizon'])
        note('desc', f'{name} search dir={direction} from D0+{sd}')
        note('class', zlib.crc32(f'{name}|{direction}|{sd}'.encode()))
        res = Resource('x', cal)
        got = None
        raised = None
        try:
            got = res.get_nearest_availability_date(start, direction, horizon)
        except RuntimeError as ex:
            raised = ex
        except ZeroDivisionError:
            assume(False, 'divisor value 0')
        # reference: least k < horizon with positive capacity on start+k days (backward: on the day before start-k days)
        exp = None
        us = us_of(start)
        for k in range(cfg['horizon']):
            if not bool(k < horizon):
                break
            cand = dt(day_of(start) + direction * k, us)
            probe = cand if direction > 0 else dt(day_of(cand) - 1, us)
            v = ref(probe)
            if v is not None and bool(v > 0):
                exp = cand
                break
        if exp is None:
            check(raised is not None, 'C17 search returned a date although no day in the horizon has capacity')
        else:
            check(raised is None, 'C17 search raised although a day with capacity exists in the horizon')
            if got is not None:
                check(got == exp, 'C17 search result is not the nearest day with capacity at the same time of day')


ALL_LEAVES = ['W', 'Ws', 'We', 'Wse', 'D', 'F', 'Fse', 'N0', 'N1', 'N2', 'Nh']
OPS = ['+', '-', '*', '/', '|']


def harnesses(tier):
    if tier == 'quick':
        return [
            {'name': 'algebra-depth1', 'fn': h_algebra, 'cfg': {'depth': 1, 'leaves': ALL_LEAVES, 'ops': OPS, 'days': [0, 1, 2, 3, 4]}},
            {'name': 'algebra-depth2', 'fn': h_algebra, 'cfg': {'depth': 2, 'leaves': ['W', 'D', 'N2'], 'ops': OPS, 'days': [1, 2]}},
            {'name': 'validation', 'fn': h_validation, 'cfg': {}},
            {'name': 'search', 'fn': h_search, 'cfg': {'depth': 1, 'leaves': ['W', 'We', 'D', 'Fse', 'N0', 'N1'], 'ops': ['+', '-', '|'],
                                                     'days': [0, 3], 'horizon': 8}},
        ]
    return [
        {'name': 'algebra-depth2-mid', 'fn': h_algebra, 'cfg': {'depth': 2, 'leaves': ['W', 'D', 'Fse', 'N2'], 'ops': OPS, 'days': [1, 2, 3]}},
        {'name': 'algebra-depth2-wide', 'fn': h_algebra, 'cfg': {'depth': 2, 'leaves': ['W', 'Wse', 'D', 'Fse', 'N2', 'N0'], 'ops': OPS, 'days': [1, 3]}},
        {'name': 'algebra-depth3', 'fn': h_algebra, 'cfg': {'depth': 3, 'leaves': ['W', 'N2'], 'ops': ['+', '|'], 'days': [2]}},
        {'name': 'algebra-depth3-sub', 'fn': h_algebra, 'cfg': {'depth': 3, 'leaves': ['D', 'N1'], 'ops': ['-', '*'], 'days': [1, 2]}},
        {'name': 'algebra-depth1-all', 'fn': h_algebra, 'cfg': {'depth': 1, 'leaves': ALL_LEAVES, 'ops': OPS, 'days': [0, 1, 2, 3, 4]}},
        {'name': 'validation', 'fn': h_validation, 'cfg': {}},
        {'name': 'search-depth1-all', 'fn': h_search, 'cfg': {'depth': 1, 'leaves': ['W', 'Ws', 'We', 'Wse', 'D', 'F', 'Fse', 'N0', 'N1'],
                                                             'ops': ['+', '-', '|', '*'], 'days': [0, 2, 4], 'horizon': 10}},
        {'name': 'search-depth2', 'fn': h_search, 'cfg': {'depth': 2, 'leaves': ['We', 'D', 'N0'], 'ops': ['-', '|'], 'days': [3], 'horizon': 5}},
    ]
