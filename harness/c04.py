"""C04 - reserved work equals remaining work and agrees with the task's dates."""
from symx import check, check_all, And, Or, Not, dt
from harness import sched
from harness.sched import setup, run_calc, View, day_of, us_of, capacity, remaining, MON, fmt
from harness.sched_meta import *  # noqa

PROPERTY = 'C04'


def h(cfg):
    P, w, tasks = setup(cfg, backward=cfg.get('backward', False))
    sch, exc = run_calc(P, w)
    if exc is not None:
        check(True, 'C04 (not schedulable: ' + type(exc).__name__ + ')')
        return
    V = View(P, sch)
    items = []
    for i in range(P.n):
        t = V.t[i]
        rows = V.by_task[i]
        completed = (not P.backward) and P.fend[i] is not None
        if not P.leaf[i] or P.milestone[i] or completed:
            kind = 'summary' if not P.leaf[i] else ('milestone' if P.milestone[i] else 'completed task')
            check(len(rows) == 0, 'C04 work reserved for a ' + kind)
        else:
            rem = remaining(P, i)
            items.append((V.total(i) == rem, 'C04 reserved units differ from max(estimate - spent, 0)', None))
            days = V.days(i)
            check(len(set(days)) == len(days), 'C04 more than one usage row for a task on one day')
            for d in days:
                items.append((dt(d, 0) >= dt(day_of(t.start), 0), 'C04 work reserved before the start day', None))
                items.append((dt(d, 0) < t.end, 'C04 work reserved on a day not before the end', None))
                if not P.backward:
                    check(d >= P.clock_day, 'C04 work reserved on a day before the current day')
            if days:
                first, last = min(days), max(days)
                if not P.backward:
                    if P.fstart[i] is None:
                        check(day_of(t.start) == first, 'C04 chosen start is not on the first reserved day',
                              detail=f'start {fmt(t.start)} first MON+{first - MON}')
                    items.append((And(t.end > dt(last, 0), t.end <= dt(last + 1, 0)),
                                  'C04 end outside the 24h following the last reserved day midnight', None))
                else:
                    items.append((And(t.start >= dt(first, 0), t.start < dt(first + 1, 0)),
                                  'C04 backward start is not within the first reserved day', None))
        if not P.backward and P.leaf[i] and not P.milestone[i]:
            if P.fstart[i] is not None:
                items.append((t.start == P.fstart[i], 'C04 user-fixed start changed', None))
            if P.fend[i] is not None:
                items.append((t.end == P.fend[i], 'C04 user-fixed end changed', None))
    check_all(items)


def harnesses(tier):
    return sched.standard_harnesses(h, tier)
