"""Scheduling family: one generator of (WBS, resources, start/deadline, clock, balance)
problems with symbolic times of day and quantities; shared by C02-C04, C06-C09, C14."""
import datetime as _real
import zlib

from symx import (fresh_int, fresh_real, choose, assume, check, note, And, Or, Not, Implies, is_native, dt, DAY_US)
from symx import core
from symx.stubs import clock_and_dates
from symx.xdt import XDateTime

from pjplan import WBS, Task, Resource, WeeklyCalendar, DirectCalendar, FixedCalendar, ForwardScheduler, \
    BackwardScheduler

MON = _real.date(2024, 1, 1).toordinal()  # a Monday


# ---------------------------------------------------------------------------
# mode-agnostic date helpers

def day_of(d):
    return d.o if isinstance(d, XDateTime) else d.toordinal()


def us_of(d):
    if isinstance(d, XDateTime):
        return d.us
    return ((d.hour * 60 + d.minute) * 60 + d.second) * 10 ** 6 + d.microsecond


def midnight(day):
    return dt(day, 0)


def fmt(d):
    return f'{_real.date.fromordinal(day_of(d)).isoformat()}+{us_of(d)}us'


def smax(xs):
    m = xs[0]
    for x in xs[1:]:
        if bool(x > m):
            m = x
    return m


def smin(xs):
    m = xs[0]
    for x in xs[1:]:
        if bool(x < m):
            m = x
    return m


# ---------------------------------------------------------------------------
# calendars (concrete per fork) with an independent capacity table

def cal_default():
    return None, lambda day: 8 if (day - MON) % 7 < 5 else 0


def cal_sparse():
    return (lambda: WeeklyCalendar(units_per_day={0: 4, 2: 6, 5: 2})), \
        lambda day: {0: 4, 2: 6, 5: 2}.get((day - MON) % 7, 0)


def cal_fraction():
    return (lambda: WeeklyCalendar(days=[0, 1, 2, 3, 4, 5, 6], units_per_day=2.5)), lambda day: 2.5


def cal_from_wed():
    # weekly Mon-Fri 8, valid from Wednesday of the first week on
    return (lambda: WeeklyCalendar(start=dt(MON + 2, 0), days=[0, 1, 2, 3, 4], units_per_day=8)), \
        lambda day: (8 if (day - MON) % 7 < 5 else 0) if day >= MON + 2 else 0


def cal_direct():
    tab = {MON - 3: 8, MON - 2: 8, MON - 1: 8, MON + 1: 8, MON + 2: 0, MON + 4: 4, MON + 7: 8, MON + 8: 8, MON + 9: 8,
           MON + 10: 8, MON + 11: 8}
    return (lambda: DirectCalendar({dt(k, 0): v for k, v in tab.items()})), lambda day: tab.get(day, 0)


def cal_composed():
    # (Mon-Fri 8 minus 3 on the first Tuesday) | 1 unit on every other day
    def mk():
        return (WeeklyCalendar(days=[0, 1, 2, 3, 4], units_per_day=8) - DirectCalendar({dt(MON + 1, 0): 3})) | \
            FixedCalendar(1)

    def cap(day):
        base = 8 if (day - MON) % 7 < 5 else 0
        if day == MON + 1:
            base -= 3
        return base if base > 0 else 1

    return mk, cap


def cal_zero():
    return (lambda: WeeklyCalendar(days=[], units_per_day=8)), lambda day: 0


def cal_until_fri():
    # available only until Friday of the first week (bounded validity): may run out
    return (lambda: WeeklyCalendar(end=dt(MON + 4, 0), days=[0, 1, 2, 3, 4, 5, 6], units_per_day=8)), \
        lambda day: 8 if day <= MON + 4 else 0


CALENDARS = {'default': cal_default, 'sparse': cal_sparse, 'fraction': cal_fraction, 'from_wed': cal_from_wed,
             'direct': cal_direct, 'composed': cal_composed, 'zero': cal_zero, 'until_fri': cal_until_fri}


# ---------------------------------------------------------------------------
# problem generation

class Problem:
    pass


def ancestors(parent, i):
    out = []
    while parent[i] != -1:
        i = parent[i]
        out.append(i)
    return out


def gen_problem(cfg, backward=False):
    P = Problem()
    if cfg.get('profiles'):
        names = sorted(cfg['profiles'])
        pn = names[choose('profile', len(names))]
        cfg = dict(cfg, **cfg['profiles'][pn])
        P.profile = pn
    else:
        P.profile = '-'
    P.cfg = cfg  # the effective configuration (profile merged): harnesses must read their options from here
    n = cfg['n']
    P.n = n
    P.backward = backward
    parent = [-1] * n
    if cfg.get('fixed_parent'):
        parent = list(cfg['fixed_parent'])
    elif cfg.get('hierarchy', True):
        for i in range(1, n):
            cands = [-1]
            j = i - 1
            while j != -1:
                cands.append(j)
                j = parent[j]
            parent[i] = cands[choose(f'par{i}', len(cands))]
    P.parent = parent
    P.children = [[c for c in range(n) if parent[c] == i] for i in range(n)]
    P.leaf = [len(P.children[i]) == 0 for i in range(n)]
    links = []
    if cfg.get('links', True):
        for i in range(n):
            for j in range(i + 1, n):
                if i in ancestors(parent, j) or j in ancestors(parent, i):
                    continue
                if cfg.get('link_pairs') is not None and (i, j) not in cfg['link_pairs']:
                    continue
                c = choose(f'lk{i}_{j}', 3)
                if c == 1:
                    links.append((i, j))
                elif c == 2:
                    links.append((j, i))
        succ = {i: [b for a, b in links if a == i] for i in range(n)}
        state = {}

        def dfs(u):
            state[u] = 1
            for v in succ[u]:
                if state.get(v) == 1 or (v not in state and not dfs(v)):
                    return False
            state[u] = 2
            return True

        for i in range(n):
            if i not in state and not dfs(i):
                assume(False, 'cyclic links')
    P.links = links
    # milestones are leaves (a milestone with children is outside the claim)
    P.milestone = [bool(cfg.get('milestones') and P.leaf[i] and choose(f'ms{i}', 2)) for i in range(n)]
    rnames = cfg.get('resources', ['r'])
    # summaries may name a resource too (a phase owner); it books nothing but must be present in the result
    P.res = [rnames[choose(f'res{i}', len(rnames))] if P.leaf[i] else (['pm', None][choose(f'sres{i}', 2)] if cfg.get('summary_resource') else None)
             for i in range(n)]
    cals = cfg.get('calendars', ['default'])
    P.cal = {}
    for nm in sorted(set(P.res[i] for i in range(n) if P.leaf[i] and P.res[i] is not None)):
        P.cal[nm] = cals[choose(f'cal_{nm}', len(cals))]
    P.supplied = {nm: not (cfg.get('unsupplied') and P.cal[nm] == 'default' and choose(f'unsup_{nm}', 2)) for nm in P.cal}
    # project start / deadline and clock
    if cfg.get('scenarios'):
        sd_, co_ = cfg['scenarios'][choose('scen', len(cfg['scenarios']))]
        P.start_day = MON + sd_
        P.clock_day = P.start_day + co_
    else:
        sd = cfg.get('start_days', [0])
        P.start_day = MON + sd[choose('sd', len(sd))]
        co = cfg.get('clock_offsets', [-1])
        P.clock_day = P.start_day + co[choose('cd', len(co))]
    P.start = dt(P.start_day, fresh_int('start_us', 0, DAY_US - 1) if cfg.get('sym_start_us', True) else 0)
    P.clock = dt(P.clock_day, fresh_int('clock_us', 0, DAY_US - 1))
    if cfg.get('ctor_days_earlier'):
        P.ctor_clock = dt(P.clock_day - cfg['ctor_days_earlier'], fresh_int('ctor_clock_us', 0, DAY_US - 1))
    bal = cfg.get('balance', [True])
    P.balance = bal[choose('bal', len(bal))]
    P.default_estimate = 0
    if cfg.get('default_estimate'):
        if choose('de', 2):
            P.default_estimate = fresh_real('default_estimate', 0, cfg.get('E', 12))
    E = cfg.get('E', 12)
    P.est, P.spent, P.fstart, P.fend, P.min_start = [None] * n, [None] * n, [None] * n, [None] * n, [None] * n
    for i in range(n):
        if P.leaf[i]:
            if not (cfg.get('est_none') and choose(f'en{i}', 2)):
                P.est[i] = fresh_real(f'est{i}', 0, E, grid=cfg.get('grid', 4))
            if not (cfg.get('spent_none', True) and choose(f'sn{i}', 2)):
                P.spent[i] = fresh_real(f'spent{i}', 0, E, grid=cfg.get('grid', 4))
            if cfg.get('min_start') and (i == cfg.get('dates_on', i)) and choose(f'hasms{i}', 2):
                offs = cfg.get('min_start_offsets', [-1, 1, 3])
                P.min_start[i] = dt(P.start_day + offs[choose(f'msd{i}', len(offs))], fresh_int(f'ms_us{i}', 0, DAY_US - 1))
            if cfg.get('fixed') and not backward and (i == cfg.get('dates_on', i)):
                f = choose(f'fix{i}', 3)  # 0 none, 1 start only, 2 start and end (completed)
                if f >= 1:
                    offs = cfg.get('fixed_offsets', [-2, 0, 2])
                    P.fstart[i] = dt(P.start_day + offs[choose(f'fsd{i}', len(offs))], fresh_int(f'fs_us{i}', 0, DAY_US - 1))
                if f == 2:
                    # a fixed end must not be in the future of the clock (calc refuses that; C14 covers it)
                    P.fend[i] = dt(P.clock_day - choose(f'fed{i}', 2), fresh_int(f'fe_us{i}', 0, DAY_US - 1))
                    assume(P.fend[i] <= P.clock)
                    assume(P.fstart[i] <= P.fend[i])
        elif cfg.get('summary_values') and choose(f'sv{i}', 2):
            # user values on a summary: must be replaced by the roll-ups
            P.est[i] = 77
            P.spent[i] = 5
            P.fstart[i] = dt(P.start_day - 30, 0)
            P.fend[i] = dt(P.start_day - 29, 0)
    return P


def describe(P):
    return (f'[{P.profile}] parent={P.parent} links={P.links} ms={[int(x) for x in P.milestone]} res={P.res} cal={P.cal} '
            f'start_day=MON+{P.start_day - MON} clock_day=MON+{P.clock_day - MON} bal={P.balance} '
            f'est={["-" if e is None else "s" for e in P.est]} spent={["-" if e is None else "s" for e in P.spent]} '
            f'fixed={[(0 if a is None else 1) + (0 if b is None else 1) for a, b in zip(P.fstart, P.fend)]} '
            f'min_start={[0 if m is None else day_of(m) - MON for m in P.min_start]} backward={P.backward}')


def build_wbs(P):
    tasks = []
    for i in range(P.n):
        t = Task(i, f't{i}', resource=P.res[i], estimate=P.est[i], spent=P.spent[i], start=P.fstart[i],
                 end=P.fend[i], milestone=P.milestone[i], min_start=P.min_start[i])
        tasks.append(t)
    w = WBS()
    for i in range(P.n):
        if P.parent[i] == -1:
            w.roots.append(tasks[i])
        else:
            tasks[P.parent[i]].children.append(tasks[i])
    for a, b in P.links:
        tasks[b].predecessors.append(tasks[a])
    return w, tasks


def make_resources(P):
    out = []
    for nm in sorted(P.cal):
        if not P.supplied[nm]:
            continue
        mk, _ = CALENDARS[P.cal[nm]]()
        out.append(Resource(nm) if mk is None else Resource(nm, mk()))
    return out


def capacity(P, name, day):
    if name not in P.cal:
        return 8 if (day - MON) % 7 < 5 else 0  # default resource created by calc
    return CALENDARS[P.cal[name]]()[1](day)


def cfg_strict_exceptions(P):
    return getattr(P, 'any_exception_is_outcome', False)


def run_calc(P, w):
    """Runs calc under the symbolic clock.  Returns (schedule | None, exception | None)."""
    # the scheduler object may have been created earlier than calc() is called (P.ctor_clock < P.clock)
    with clock_and_dates(getattr(P, 'ctor_clock', None) or P.clock):
        res = make_resources(P)  # inside: DirectCalendar normalises its keys with the module's datetime
        if P.backward:
            sc = BackwardScheduler(end=P.start, resources=res, balance_resources=P.balance,
                                   default_estimate=P.default_estimate)
        else:
            sc = ForwardScheduler(start=P.start, resources=res, balance_resources=P.balance,
                                  default_estimate=P.default_estimate)
    with clock_and_dates(P.clock):
        try:
            s = sc.calc(w)
            return s, None
        except RecursionError as e:
            return None, e
        except RuntimeError as e:
            return None, e
        except core.EngineError:
            raise
        except Exception as e:
            if cfg_strict_exceptions(P) or is_native():
                return None, e
            # an exception type calc never raises on the unchanged tree: either a defect (C14 decides that) or an
            # operation the symbolic proxies do not model -> degrade this path to a native sample
            raise core.EngineError(f'{type(e).__name__} inside calc: {e}')


# ---------------------------------------------------------------------------
# views of a result

class View:
    """Result tasks by index, usage rows per task/day, helper relations."""

    def __init__(self, P, sch):
        self.P = P
        self.sch = sch
        self.t = [sch.schedule[i] for i in range(P.n)]  # task ids are 0..n-1 (id 0 included on purpose)
        self.rows = sch.resource_usage.rows()
        self.by_task = {i: [] for i in range(P.n)}
        ix = {id(t): i for i, t in enumerate(self.t)}
        self.foreign_rows = 0
        for r in self.rows:
            i = ix.get(id(r.task))
            if i is None:
                self.foreign_rows += 1
            else:
                self.by_task[i].append(r)

    def days(self, i):
        return [day_of(r.date) for r in self.by_task[i]]

    def total(self, i):
        return sum([r.units for r in self.by_task[i]], 0)


def leaves_of(P, i):
    if P.leaf[i]:
        return [i]
    out = []
    for c in P.children[i]:
        out += leaves_of(P, c)
    return out


def prerequisites(P, i):
    """Own and inherited predecessors, expanded to leaves."""
    out = []
    for a in [i] + ancestors(P.parent, i):
        for p, s in P.links:
            if s == a:
                for l in leaves_of(P, p):
                    if l not in out:
                        out.append(l)
    return out


def dependents(P, i):
    out = []
    for a in [i] + ancestors(P.parent, i):
        for p, s in P.links:
            if p == a:
                for l in leaves_of(P, s):
                    if l not in out:
                        out.append(l)
    return out


def remaining(P, i):
    e = P.est[i] if P.est[i] is not None else P.default_estimate
    s = P.spent[i] if P.spent[i] is not None else 0
    d = e - s
    if isinstance(d, (int, float)):
        return max(d, 0)
    return d if bool(d > 0) else 0


def setup(cfg, backward=False):
    P = gen_problem(cfg, backward)
    d = describe(P)
    note('desc', d)
    note('class', zlib.crc32(d.encode()))
    note('count', {'paths[' + P.profile + ']': 1})
    w, tasks = build_wbs(P)
    return P, w, tasks


# ---------------------------------------------------------------------------
# shared menus (quick = targeted profiles, thorough = wider products)

PLAIN = {'milestones': False, 'resources': ['r'], 'calendars': ['default'], 'balance': [True], 'E': 12,
         'spent_none': False}

FWD_QUICK_PROFILES = {
    'n3-plain': dict(PLAIN, n=3, scenarios=[(0, -1)]),
    'n2-plain-late-clock': dict(PLAIN, n=2, ctor_days_earlier=3, scenarios=[(5, 1), (3, 3)]),
    'n2-milestones': dict(PLAIN, n=2, milestones=True, scenarios=[(0, -1), (4, 0)]),
    'n2-none-values': dict(PLAIN, n=2, est_none=True, spent_none=True, default_estimate=True, scenarios=[(0, -1)]),
    'n2-resources': dict(PLAIN, n=2, resources=['r', 'q'], calendars=['sparse'], scenarios=[(5, 0)]),
    'n2-two-calendars': dict(PLAIN, n=2, resources=['r', 'q'], calendars=['default', 'sparse'], links=False, hierarchy=False, scenarios=[(0, -1)]),
    'n2-fraction': dict(PLAIN, n=2, calendars=['fraction'], grid=8, E=6, scenarios=[(1, -1)]),
    'n2-unbalanced': dict(PLAIN, n=2, balance=[False], scenarios=[(0, -1), (4, 2)]),
    'n3-summary-values': dict(PLAIN, n=3, summary_values=True, summary_resource=True, links=False, scenarios=[(2, -1)]),
    'n2-min-start': dict(PLAIN, n=2, min_start=True, milestones=True, min_start_offsets=[-1, 1, 4], scenarios=[(1, 0)]),
    'n2-fixed': dict(PLAIN, n=2, fixed=True, fixed_offsets=[-2, 1], dates_on=0, scenarios=[(1, 0), (0, 2), (2, -1)]),
    'n3-two-resources': dict(PLAIN, n=3, fixed_parent=[-1, -1, 1], resources=['r', 'q'], E=10, scenarios=[(0, -1)]),
}

BWD_QUICK_PROFILES = {
    'n3-plain': dict(PLAIN, n=3, scenarios=[(0, -1), (5, -1)]),
    'n2-milestones': dict(PLAIN, n=2, milestones=True, scenarios=[(0, -1), (4, -1)]),
    'n2-none-values': dict(PLAIN, n=2, est_none=True, spent_none=True, default_estimate=True, scenarios=[(0, -1)]),
    'n2-resources': dict(PLAIN, n=2, resources=['r', 'q'], calendars=['sparse'], scenarios=[(5, -1)]),
    'n2-fraction': dict(PLAIN, n=2, calendars=['fraction'], grid=8, E=6, scenarios=[(1, -1)]),
    'n2-unbalanced': dict(PLAIN, n=2, balance=[False], scenarios=[(0, -1), (4, -1)]),
    'n3-summary-values': dict(PLAIN, n=3, summary_values=True, summary_resource=True, links=False, scenarios=[(2, -1)]),
    'n3-two-resources': dict(PLAIN, n=3, fixed_parent=[-1, -1, 1], resources=['r', 'q'], E=10, scenarios=[(0, -1)]),
}

FULL = {'milestones': True, 'resources': ['r', 'q'], 'calendars': ['default', 'sparse', 'fraction', 'composed'],
        'balance': [True, False], 'E': 12, 'summary_values': True, 'spent_none': True}

FWD_THOROUGH_PROFILES = {
    'n3-features': dict(PLAIN, n=3, milestones=True, balance=[True, False], resources=['r', 'q'], calendars=['default'],
                        link_pairs=[(0, 1), (1, 2)], scenarios=[(0, -1)]),
    'n3-calendars': dict(PLAIN, n=3, resources=['r', 'q'], calendars=['sparse', 'fraction', 'composed', 'from_wed'], links=False,
                         grid=8, scenarios=[(0, -1), (5, 1)]),
    'n3-dates': dict(PLAIN, n=3, min_start=True, fixed=True, dates_on=1, link_pairs=[(0, 1), (1, 2)], scenarios=[(1, 0)]),
    'n3-none-values': dict(PLAIN, n=3, est_none=True, spent_none=True, default_estimate=True, summary_values=True,
                           summary_resource=True, links=False, scenarios=[(0, -1)]),
    'n3-all-links': dict(PLAIN, n=3, ctor_days_earlier=2, scenarios=[(5, 1), (2, 3)]),
    'n4-links': dict(PLAIN, n=4, link_pairs=[(0, 1), (1, 2), (2, 3)], scenarios=[(0, -1)]),
    'n4-two-resources': dict(PLAIN, n=4, resources=['r', 'q'], hierarchy=False, link_pairs=[(0, 3)], scenarios=[(4, -1)]),
}

BWD_THOROUGH_PROFILES = {
    'n3-features': dict(PLAIN, n=3, milestones=True, balance=[True, False], resources=['r', 'q'], calendars=['default', 'sparse'],
                        link_pairs=[(0, 1), (1, 2)], scenarios=[(0, -1)]),
    'n3-calendars': dict(PLAIN, n=3, resources=['r', 'q'], calendars=['sparse', 'fraction', 'composed'], links=False,
                         grid=8, scenarios=[(0, -1), (5, -1)]),
    'n3-none-values': dict(PLAIN, n=3, est_none=True, spent_none=True, default_estimate=True, summary_values=True,
                           summary_resource=True, link_pairs=[(0, 2)], scenarios=[(0, -1)]),
    'n3-all-links': dict(PLAIN, n=3, scenarios=[(0, -1), (5, -1)]),
    'n4-links': dict(PLAIN, n=4, link_pairs=[(0, 1), (1, 2), (2, 3), (0, 3)], scenarios=[(0, -1)]),
    'n4-two-resources': dict(PLAIN, n=4, resources=['r', 'q'], hierarchy=False, link_pairs=[(0, 3), (1, 2)], scenarios=[(4, -1)]),
}


def standard_harnesses(h, tier, forward=True, backward=True):
    out = []
    if tier == 'quick':
        if forward:
            out.append({'name': 'forward-quick', 'fn': h, 'cfg': {'profiles': FWD_QUICK_PROFILES, 'n': 0}})
        if backward:
            out.append({'name': 'backward-quick', 'fn': h, 'cfg': {'profiles': BWD_QUICK_PROFILES, 'n': 0, 'backward': True}})
    else:
        if forward:
            for k, v in FWD_THOROUGH_PROFILES.items():
                out.append({'name': 'forward-' + k, 'fn': h, 'cfg': dict(v)})
        if backward:
            for k, v in BWD_THOROUGH_PROFILES.items():
                out.append({'name': 'backward-' + k, 'fn': h, 'cfg': dict(v, backward=True)})
    return out


# ---------------------------------------------------------------------------
# helpers for the tightness oracles (C08, C09)

def hours_td(share24):
    """timedelta(hours=share24) in the current mode."""
    if is_native():
        return _real.timedelta(hours=float(share24))
    from symx.xdt import XTimeDelta
    return XTimeDelta(hours=share24)


def approx_eq(a, b):
    """Exact in the model; +-1 microsecond when replayed with binary64 floats."""
    if is_native():
        return abs((a - b).total_seconds()) <= 1.5e-6
    d = (a.o - b.o) * DAY_US + a.us - b.us   # the model demands <= 2 us so that counterexamples survive float replay
    return And(d <= 2, d >= -2)


def row_index(V):
    """Position of every usage row in reservation order."""
    return {id(r): k for k, r in enumerate(V.rows)}


def booked(V, P, name, day, upto_index=None, include=True):
    """Units booked on (resource name, day) by rows up to (and including) position upto_index."""
    tot = 0
    ix = {id(t): i for i, t in enumerate(V.t)}
    for k, r in enumerate(V.rows):
        if upto_index is not None and (k > upto_index or (k == upto_index and not include)):
            break
        i = ix.get(id(r.task))
        if i is not None and P.res[i] == name and day_of(r.date) == day:
            tot = tot + r.units
    return tot
