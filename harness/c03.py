"""C03 - schedules never over-allocate a resource; the usage report is consistent."""
from symx import check, check_all, And, Or, Not, dt
from harness import sched
from harness.sched import setup, run_calc, View, day_of, capacity, MON
from harness.sched_meta import *  # noqa

PROPERTY = 'C03'


def h(cfg):
    P, w, tasks = setup(cfg, backward=cfg.get('backward', False))
    sch, exc = run_calc(P, w)
    if exc is not None:
        check(True, 'C03 (not schedulable: ' + type(exc).__name__ + ')')
        return
    V = View(P, sch)
    items = []
    check(V.foreign_rows == 0, 'C03 usage row for a task that is not in the result')
    resources = {r.name: r for r in sch.resources}
    per_res_day = {}
    per_task_day = {}
    for i in range(P.n):
        for r in V.by_task[i]:
            d = day_of(r.date)
            items.append((r.units > 0, 'C03 usage row with non-positive amount', None))
            check(r.resource.name == P.res[i], 'C03 row booked on a resource other than the one named by its task',
                  detail=f'{r.resource.name} vs {P.res[i]}')
            check(r.resource is resources.get(P.res[i]), 'C03 row resource is not the resource object of the result')
            check(r.date == dt(d, 0), 'C03 row date is not a day')
            cap = capacity(P, P.res[i], d)
            check(cap > 0, 'C03 row on a day without calendar capacity', detail=f'day MON+{d - MON}')
            per_res_day.setdefault((P.res[i], d), []).append(r.units)
            per_task_day.setdefault((i, d), []).append(r.units)
    if P.balance:
        for (nm, d), us in per_res_day.items():
            items.append((sum(us, 0) <= capacity(P, nm, d), 'C03 resource over-allocated on a day', f'balance on, MON+{d - MON}'))
    else:
        for (i, d), us in per_task_day.items():
            items.append((sum(us, 0) <= capacity(P, P.res[i], d), 'C03 task books more than the day capacity', f'balance off'))
    # report views agree with the rows
    rep = sch.resource_usage
    for (nm, d), us in per_res_day.items():
        items.append((rep.reserved(resources[nm], dt(d, 0)) == sum(us, 0), 'C03 reserved() differs from the sum of rows', None))
    for nm, r in resources.items():
        free_day = MON + 40
        check(rep.reserved(r, dt(free_day, 0)) == 0, 'C03 reserved() on a day without rows is not 0')
    allrows = rep.rows()
    for i in range(P.n):
        ti = V.t[i]
        flt = rep.rows(lambda r: r.task is ti)
        check(len(flt) == len(V.by_task[i]), 'C03 rows(filter) differs from the filtered rows')
    check(len(rep.rows(lambda r: False)) == 0 and len(rep.rows(None)) == len(allrows), 'C03 rows(filter) trivial filters')
    # every resource named by a task is present; default Mon-Fri 8 when not supplied
    for i in range(P.n):
        nm = P.res[i]
        if nm is None:
            continue  # no resource named
        check(nm in resources, 'C03 resource named by a task is missing from the result', detail=str(nm))
        if nm in resources and (nm not in P.cal or not P.supplied[nm]):
            r = resources[nm]
            for k in range(7):
                exp = 8 if k < 5 else 0
                check(r.get_available_units(dt(MON + 14 + k, 0)) == exp, 'C03 default resource is not Monday-Friday 8')
    check_all(items)


def harnesses(tier):
    hs = sched.standard_harnesses(h, tier)
    for x in hs:
        if 'profiles' in x['cfg']:
            x['cfg'] = dict(x['cfg'], profiles=dict(x['cfg']['profiles'],
                            **{'n2-unsupplied': dict(sched.PLAIN, n=2, resources=['r', 'q'], unsupplied=True, milestones=True,
                                                     scenarios=[(4, -1)])}))
    return hs
