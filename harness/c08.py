"""C08 - forward schedules are tight: no unforced idle days; dates encode used capacity."""
from symx import check, check_all, choose, assume, note, And, Or, Not, dt
from harness import sched
from harness.sched import (setup, run_calc, View, day_of, us_of, capacity, prerequisites, dependents, ancestors, leaves_of,
                           hours_td, approx_eq, row_index, booked, MON, build_wbs)
from harness.sched_meta import *  # noqa

PROPERTY = 'C08'


def release_day(P, V, i):
    r = max(P.start_day, P.clock_day)
    if P.min_start[i] is not None:
        r = max(r, day_of(P.min_start[i]))
    for p in prerequisites(P, i):
        r = max(r, day_of(V.t[p].end))
    return r


def in_dependency(P, i):
    chain = [i] + ancestors(P.parent, i)
    return any(a in chain or b in chain for a, b in P.links)


def related(P, u, i):
    """u and i connected through dependencies (either direction, transitively) or the hierarchy."""
    if u == i or u in ancestors(P.parent, i) or i in ancestors(P.parent, u):
        return True

    def closure(x):
        seen, todo = set(), [x]
        while todo:
            y = todo.pop()
            for p in prerequisites(P, y):
                if p not in seen:
                    seen.add(p)
                    todo.append(p)
        return seen

    return u in closure(i) or i in closure(u)


def h(cfg):
    P, w, tasks = setup(cfg)
    cfg = P.cfg
    sch, exc = run_calc(P, w)
    if exc is not None:
        check(True, 'C08 (not schedulable: ' + type(exc).__name__ + ')')
        return
    V = View(P, sch)
    rix = row_index(V)
    items = []
    clock_before = bool(P.clock <= P.start)
    for i in range(P.n):
        if not P.leaf[i] or P.milestone[i] or P.fstart[i] is not None:
            continue
        t = V.t[i]
        rows = V.by_task[i]
        days = V.days(i)
        nm = P.res[i]
        if P.balance:
            R = release_day(P, V, i)
            L = max(days) if days else day_of(t.start)
            for d in range(R, L):
                cap = capacity(P, nm, d)
                if cap > 0:
                    items.append((booked(V, P, nm, d) == cap, 'C08 resource not fully booked on a day between release and last work day',
                                  f'MON+{d - MON} release MON+{R - MON} last MON+{L - MON}'))
            if clock_before and rows:
                F = min(days)
                rF = [r for r in rows if day_of(r.date) == F][0]
                rL = [r for r in rows if day_of(r.date) == L][0]
                before = booked(V, P, nm, F, rix[id(rF)], include=False)
                through = booked(V, P, nm, L, rix[id(rL)], include=True)
                items.append((approx_eq(t.start, dt(F, 0) + hours_td(24 * (before / capacity(P, nm, F)))),
                              'C08 start does not encode the capacity booked before the task', None))
                check(approx_eq(t.end, dt(L, 0) + hours_td(24 * (through / capacity(P, nm, L)))),
                      'C08 end does not encode the capacity booked up to and including the task',
                      known=[('KF-C08-1', t.end == P.clock)])
    # capacity is handed out in WBS order among leaves that take part in no dependency
    free = [i for i in range(P.n) if P.leaf[i] and not P.milestone[i] and P.fstart[i] is None and P.min_start[i] is None
            and not in_dependency(P, i)]
    if P.balance:
        for a in free:
            for b in free:
                if a < b and P.res[a] == P.res[b]:
                    for ra in V.by_task[a]:
                        for rb in V.by_task[b]:
                            if day_of(ra.date) == day_of(rb.date):
                                check(rix[id(ra)] < rix[id(rb)], 'C08 later task got capacity of a day before an earlier task')
                    if V.by_task[a] and V.by_task[b]:
                        check(min(V.days(a)) <= min(V.days(b)), 'C08 later task in WBS order works before an earlier one')
    check_all(items)
    # with balancing off, removing an unrelated task leaves the dates unchanged
    if not P.balance and cfg.get('removal'):
        # the removed task must itself be free of dependencies: a link to a removed task would dangle outside the WBS
        cands = [u for u in range(P.n) if P.leaf[u] and (P.parent[u] == -1 or len(P.children[P.parent[u]]) > 1)
                 and not any(a == u or b == u for a, b in P.links)]
        if not cands:
            return
        u = cands[choose('remove', len(cands))]
        w2, tasks2 = build_wbs(P)
        w2.remove(tasks2[u])
        sch2, exc2 = run_calc(P, w2)
        if exc2 is not None:
            check(False, 'C08 removing an unrelated task made the WBS unschedulable', detail=type(exc2).__name__)
            return
        items = []
        for i in range(P.n):
            if P.leaf[i] and not related(P, u, i):
                t1, t2 = V.t[i], sch2.schedule[i]
                items.append((And(t1.start == t2.start, t1.end == t2.end),
                              'C08 dates changed when an unrelated task was removed (balancing off)', None))
        check_all(items)


PL = sched.PLAIN
QUICK = {
    'n3-plain': dict(PL, n=3, scenarios=[(0, -1), (5, 1)]),
    'n2-resources': dict(PL, n=2, resources=['r', 'q'], calendars=['sparse', 'fraction'], scenarios=[(5, 0)]),
    'n3-sparse-flat': dict(PL, n=3, calendars=['sparse', 'composed'], hierarchy=False, links=False, scenarios=[(1, -1)]),
    'n2-min-start': dict(PL, n=2, min_start=True, min_start_offsets=[-1, 1, 3], scenarios=[(1, 0)]),
    'n3-two-resources': dict(PL, n=3, fixed_parent=[-1, -1, 1], resources=['r', 'q'], E=10, scenarios=[(0, -1)]),
    'n3-two-resources-flat': dict(PL, n=3, hierarchy=False, resources=['r', 'q'], link_pairs=[(0, 1)], E=10, scenarios=[(0, -1)]),
    'n2-milestones': dict(PL, n=2, milestones=True, scenarios=[(0, -1)]),
    'n2-fraction-fine': dict(PL, n=2, calendars=['fraction'], grid=8, E=6, links=False, hierarchy=False, scenarios=[(1, -1)]),
    'n3-unbalanced-removal': dict(PL, n=3, balance=[False], removal=True, scenarios=[(0, -1)]),
}


def harnesses(tier):
    if tier == 'quick':
        return [{'name': 'forward-quick', 'fn': h, 'cfg': {'profiles': QUICK, 'n': 0}}]
    out = []
    for k, v in sched.FWD_THOROUGH_PROFILES.items():
        out.append({'name': 'forward-' + k, 'fn': h, 'cfg': dict(v, removal=True)})
    return out
