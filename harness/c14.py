"""C14 - calc always terminates with a schedule or a RuntimeError diagnosis."""
from symx import check, choose, fresh_int, note, dt, DAY_US
from harness import sched
from harness.sched import setup, run_calc, prerequisites, capacity, MON, Task
from harness.sched_meta import *  # noqa

PROPERTY = 'C14'


def leaf_cycle(P):
    dep = {i: prerequisites(P, i) for i in range(P.n) if P.leaf[i]}
    color = {}

    def dfs(u):
        color[u] = 1
        for v in dep.get(u, []):
            if color.get(v) == 1 or (v not in color and dfs(v)):
                return True
        color[u] = 2
        return False

    return any(u not in color and dfs(u) for u in dep)


def h(cfg):
    P, w, tasks = setup(cfg, backward=cfg.get('backward', False))
    cfg = P.cfg
    P.any_exception_is_outcome = True
    must_raise = []
    if cfg.get('nameless'):
        for t in tasks:
            t.name = None
    if cfg.get('outside'):
        kind = choose('outside_dates', 4)  # 0 none, 1 start only, 2 end only, 3 both
        x = Task(99, 'X' if not cfg.get('nameless') else None,
                 start=dt(P.start_day - 5, 0) if kind in (1, 3) else None,
                 end=dt(P.start_day - 4, fresh_int('xend_us', 0, DAY_US - 1)) if kind in (2, 3) else None)
        tgt = choose('outside_to', P.n)
        tasks[tgt].predecessors.append(x)
        note('desc', sched.describe(P) + f' outside predecessor kind={kind} of t{tgt}')
        if kind != 3:
            must_raise.append('outside predecessor without start or end')
    if cfg.get('future_end') and not P.backward:
        k = choose('future_on', P.n)
        if P.leaf[k]:
            tasks[k].start = dt(P.clock_day - 1, 0)
            tasks[k].end = dt(P.clock_day + choose('future_days', 2), fresh_int('fend_us', 0, DAY_US - 1))
            if not bool(tasks[k].end <= P.clock):
                must_raise.append('fixed end in the future')
    if leaf_cycle(P):
        must_raise.append('dependency cycle through the hierarchy')
    for i in range(P.n):
        if P.leaf[i] and not P.milestone[i] and P.res[i] in P.cal and P.cal[P.res[i]] == 'zero':
            if P.backward or (P.fstart[i] is None):
                must_raise.append('resource never available')
    sch, exc = run_calc(P, w)
    if exc is None:
        check(not must_raise, 'C14 calc returned a schedule for an unschedulable input', detail='; '.join(must_raise))
    else:
        check(isinstance(exc, RuntimeError) and not isinstance(exc, RecursionError),
              'C14 calc failed with an exception other than RuntimeError', detail=type(exc).__name__)


P_ = sched.PLAIN
QUICK = {
    'cycles-n3': dict(P_, n=3, milestones=True, scenarios=[(0, -1)]),
    'cycles-n4': dict(P_, n=4, fixed_parent=[-1, 0, -1, -1], E=8, scenarios=[(0, -1)]),
    'cycles-n4-deep': dict(P_, n=4, fixed_parent=[-1, 0, 1, -1], E=8, scenarios=[(0, -1)]),
    'outside-pred': dict(P_, n=2, outside=True, scenarios=[(0, -1)]),
    'outside-pred-nameless-n3': dict(P_, n=3, outside=True, nameless=True, links=True, E=4, scenarios=[(0, -1)]),
    'future-end': dict(P_, n=2, future_end=True, scenarios=[(0, 0), (0, 2)]),
    'never-available': dict(P_, n=2, calendars=['zero', 'from_wed'], E=8, links=False, hierarchy=False,
                            scenarios=[(0, -1), (9, 0)]),
    'runs-out': dict(P_, n=2, calendars=['until_fri', 'direct'], E=20, links=False, hierarchy=False,
                     scenarios=[(3, -1)]),
    'no-resource': dict(P_, n=2, resources=[None, 'r'], scenarios=[(0, -1)]),
}


def harnesses(tier):
    opts = {'path_timeout': 120}
    if tier == 'quick':
        return [
            {'name': 'forward-quick', 'fn': h, 'cfg': {'profiles': QUICK, 'n': 0}, 'opts': opts},
            {'name': 'backward-quick', 'fn': h, 'cfg': {'profiles': QUICK, 'n': 0, 'backward': True}, 'opts': opts},
        ]
    T = {
        'cycles-n4-all': dict(P_, n=4, E=6, scenarios=[(0, -1)]),
        'cycles-n3-ms-nameless': dict(P_, n=3, milestones=True, nameless=True, scenarios=[(0, -1), (5, 1)]),
        'outside-pred-n3': dict(P_, n=3, outside=True, milestones=True, E=6, scenarios=[(0, -1)]),
        'future-end-n3': dict(P_, n=3, future_end=True, E=6, scenarios=[(0, 0), (0, 2)]),
        'never-available-n2': dict(P_, n=2, resources=['r', 'q'], calendars=['zero', 'until_fri', 'from_wed', 'default'],
                                   E=24, links=False, hierarchy=False, scenarios=[(0, -1), (9, 0)]),
    }
    out = []
    for k, v in T.items():
        out.append({'name': 'forward-' + k, 'fn': h, 'cfg': dict(v), 'opts': opts})
        out.append({'name': 'backward-' + k, 'fn': h, 'cfg': dict(v, backward=True), 'opts': opts})
    return out
