#!/bin/sh
# Offline setup: overlay venv on /venv (which holds pjplan's own environment) + z3-solver from the wheelhouse.
set -e
cd "$(dirname "$0")"
V=/verif/.venv
if [ ! -x "$V/bin/python" ] || ! "$V/bin/python" -c "import z3" 2>/dev/null; then
  rm -rf "$V"
  /venv/bin/python -m venv "$V"
  SP=$("$V/bin/python" -c "import sysconfig; print(sysconfig.get_paths()['purelib'])")
  printf '/venv/lib/python3.12/site-packages\n/repo/src\n' > "$SP/overlay.pth"
  PIP_NO_INDEX=1 "$V/bin/python" -m pip install -q --no-index --find-links /opt/veriftools/wheels z3-solver jsonschema
fi
"$V/bin/python" -c "import z3, pjplan; print('z3', z3.get_version_string(), 'pjplan from', pjplan.__file__)"
