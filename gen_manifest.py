#!/usr/bin/env python3
"""Writes MANIFEST.json from the table below (kept in one place so that it stays valid)."""
import json

GRAPH_NOTE = ('Bounded: <=3 tasks with <=2 WBSs (quick) / 4 tasks (thorough), argument sequences <=2/3, ids and sort '
              'keys symbolic. Pre-states are generated from the representation invariant (validated against '
              'public-API construction). Trusted: CPython, z3 5.1.0, the symx proxies, the oracle written from the '
              'statement. No stubs inside pjplan.task/pjplan.wbs.')
SCHED_NOTE = ('Bounded: see evidence.coverage.bounds. datetime/timedelta/now() in pjplan.schedule/resource/calendar are '
              'rebound to the (day, microsecond) model with a symbolic clock; quantities on the 1/4 grid (binary64 '
              'exact); capacities concrete per fork. Trusted: CPython, z3 5.1.0, symx, the datetime model (validated '
              'differentially), the oracle written from the statement.')

CHECKS = {
    'C01': ('model_checking', 'Every invariant state x every public mutator call (all argument combinations incl. self, '
            'repeats, other trees/WBSs) within the bounds is executed symbolically on the real code; the forest and '
            'dependency-graph predicates of the statement are asserted on the post-state after returning and raising '
            'calls. One inductive step from an arbitrary invariant state covers histories of any length.', '6 C01', GRAPH_NOTE),
    'C05': ('model_checking', 'Same exploration restricted to attach/move/adopt operations, ids symbolic so that the '
            'solver chooses which tasks of different trees share an id; after every accepted call the solver is asked '
            'for equal ids inside one tree/WBS; wbs[q] with symbolic q and WBS.tasks order are decided on every '
            'shape.', '6 C05', GRAPH_NOTE),
    'C11': ('model_checking', 'Owner report == reachability from the WBS roots asserted after every call (returning or '
            'raising) over states with two WBSs, plus remove-then-attach-elsewhere two-step harness.', '6 C11', GRAPH_NOTE),
    'C15': ('model_checking', 'For every (state, call) whose call raises, the snapshot through the public getters '
            '(parents, children order, predecessor/successor lists, owners, root lists, attributes) must equal the '
            'snapshot before the call.', '6 C15', GRAPH_NOTE),
    'C16': ('model_checking', 'For every (state, call) whose call returns, the post-snapshot must equal a reference '
            'effect written from the statement (frame condition included); sort order/stability and reorder/remove_all '
            'matching are solver queries over symbolic keys and ids.', '6 C16', GRAPH_NOTE),
}

SCHED_TEXT = {
    'C02': 'ForwardScheduler.calc executed symbolically over all hierarchy/link placements within the bound; for every leaf with unfixed start the start day and all reserved days are compared with the days on which own and inherited prerequisites (expanded to leaves) end, project start, min_start and clock day; milestone placement is a solver query.',
    'C03': 'Both schedulers, both balance settings: every usage row positive (solver), on the named resource, on a day with capacity (independent capacity table); per-day sums vs capacity are solver queries over symbolic units; reserved()/rows() views and default resources checked.',
    'C04': 'Sum of reserved units == max(estimate - spent, 0) with defaults decided by the solver for symbolic estimate/spent; row days vs start/end dates; fixed dates returned unchanged.',
    'C06': 'Snapshot of the input WBS before/after calc (also when calc raises); structural comparison of the result; calc repeated on the same and a fresh scheduler; relational two-clock query: two runs under different symbolic clocks <= project start give equal dates and rows (solver).',
    'C07': 'start <= end and summary/WBS roll-ups asserted symbolically for every task of every explored schedule, forward and backward, project start at any microsecond.',
    'C08': 'Tightness oracle computed from the usage rows in reservation order: fully booked days between release day and last work day; start/end timestamps equal midnight + 24h * booked share (solver, +-2us); WBS-order hand-out; removal of an unrelated task with balancing off (second calc in the same path).',
    'C09': 'BackwardScheduler.calc: end <= deadline, predecessor end <= successor start for declared and inherited dependencies (time-stamp level), late packing and end-of-day encodings, all as solver queries over symbolic deadline time and quantities.',
    'C14': 'Unschedulable inputs are not pruned: hierarchy-closed cycles, outside predecessors with/without dates, fixed ends in the future, never-available and exhausted calendars, unnamed tasks, tasks without resource; outcome must be a schedule or exactly RuntimeError (RecursionError counted as crash), and the four enumerated causes must raise.',
}

CHECKS['C17'] = ('other', 'Calendar expression trees (depth <= 2/3) over + - * / | with symbolic capacities, validity bounds and query instant are evaluated by the real classes and compared with a reference evaluator written from the statement (one solver query per path); constructor validation decided for symbolic weekday/units/start/end; availability search with symbolic start time and horizon compared with the least-k reference, both directions.', '6 C17',
                 'Bounded: tree depth, capacity range, query-day menu, horizon <= 10 (see evidence.coverage.bounds). datetime in pjplan.calendar/resource rebound to the symx model. Trusted: CPython, z3 (non-linear real arithmetic for products of two symbolic capacities), symx, the reference evaluator.')

CHECKS['C12'] = ('other', 'critical_path() executed symbolically over every hierarchy/link placement (links on leaves and summaries, optional outside predecessor) with real-valued symbolic estimates/spent (or missing); membership of every leaf compared with a reference longest-path model over the effective leaf-level DAG (solver query per leaf): zero float => returned, float above 1e-6 => not returned; result subset of WBS leaves, non-empty, WBS unchanged, no exception. A binary64 (QF_FP) search harness covers the rounding clause as counterexample search.', '6 C12',
                 'Bounded: <=4 tasks quick / 5 thorough; quantities real in [0,12] (LRA). Exact rational arithmetic stands for binary64 except in the FP harness. Trusted: CPython, z3, symx, the 40-line reference model.')
CHECKS['C10'] = ('model_checking', 'Every invariant state with one source WBS and outside tasks linked to members (ids symbolic, so an outside id may equal a member id) x clone() / subtree(selection): structural comparison of the copy, source snapshot unchanged, then one arbitrary mutation on source or copy must leave the other side unchanged.', '6 C10', GRAPH_NOTE)

CHECKS['C20'] = ('other', 'The real text renderers are executed on strings of unbounded symbolic length (names, resources, custom values, resource names); every width comparison inside TextTable is a solver decision; on the resulting rope the solver decides that all lines have equal width and every column equal cell width (LIA over lengths, unsat = aligned for all lengths), plus line count, depth-first order, 3-spaces-per-level indentation, link/parent cells with the (external) mark, and one usage-table line per day.', '6 C20',
                 'Bounded: <=3 tasks quick / 4 thorough + one outside task; field selections, themes and entry points from a menu; string lengths unbounded. Stubs: builtin len shadowed in pjplan.utils/pjplan.task; str * SymInt yields a pad token. Trusted: CPython str methods move the opaque tokens unchanged (native replay validates), z3, symx.')

CHECKS['C13'] = ('other', 'write_csv -> real file -> read_csv executed with symbolic ids (any integer, solver picks 0/negatives/equalities), symbolic estimates/spent/milestone, text fields None / empty / opaque symbolic / adversarial concrete; equalities of the statement, byte fixpoint of a second cycle, and a permuted-columns/BOM/CRLF variant of the file are asserted on every path.', '6 C13',
                 'Bounded: <=3 tasks quick / 4 thorough; one rich task per WBS; date menu around the %y pivots. Stubs: int/float shadowed in pjplan.io.csv_io so that decimal tokens map back to symbolic numbers; csv/io C code executes concretely on token strings and on the adversarial menu only. Trusted: CPython csv/io, z3, symx.')
CHECKS['C18'] = ('other', 'Task-list queries with every filter suffix: attribute population absent/None/value per task, symbolic int values and right-hand sides, bounded symbolic texts with regex filters unrolled as NFA over symbolic characters; membership of every task is compared with the reference predicate by the solver; bulk assignment and remove_all checked on the same paths.', '6 C18',
                 'Bounded: <=3 tasks quick / 4 thorough, texts <=2/3 chars over a..c, pattern menu. Stub: re in pjplan.task -> NFA model (validated against re.search on all short strings in every run). Trusted: CPython, z3, symx.')
CHECKS['C19'] = ('other', 'The three renderers run on forked shapes/links/sections/styles with symbolic milestone flags and estimate/spent and opaque or adversarial names; the produced documents are parsed textually: one task line/entry per task with dates and milestone flag under its section, one edge/link per dependency, Start edges, JSON well-formed, progress within 0..1 decided by the solver, notebook form = escaped document.', '6 C19',
                 'Bounded: <=3 tasks; names from an adversarial menu or opaque symbolic; dates concrete. Stub: json shim with default= hook in pjplan.viz.dhtmlx.gantt. Solver content is thin (milestone branches, progress arithmetic). Browser-side parsing is outside the claim. Trusted: CPython json/html/string.Template, z3, symx.')

NOT_YET = {
}


for _k, _v in SCHED_TEXT.items():
    CHECKS[_k] = ('other', _v, '6 ' + _k, SCHED_NOTE)


def main():
    import os
    props = [json.loads(l)['id'] for l in open(os.path.join(os.path.dirname(__file__), 'properties.jsonl'))]
    checks = []
    for pid in props:
        if pid not in CHECKS:
            continue
        cat, text, ref, note = CHECKS[pid]
        checks.append({
            'property_id': pid,
            'quick_cmd': f'./check {pid} --tier quick',
            'thorough_cmd': f'./check {pid} --tier thorough',
            'evidence_file': f'/verif/evidence/{pid}.json',
            'replay_cmd_template': f'./check {pid} --replay {{path}}',
            'engine': 'symx',
            'level_claimed': {'category': cat, 'text': text, 'design_ref': 'DESIGN.md §' + ref},
            'level_note': note,
            'technique': 'bounded symbolic execution of the real Python code, every branch decided by z3 (SMT), '
                         'counterexamples replayed natively',
        })
    na = [{'property_id': p, 'reason': NOT_YET.get(p, 'check not built yet in this round (see DESIGN.md build order); '
                                                     'no verdict is claimed')}
          for p in props if p not in CHECKS]
    m = {
        'version': 1,
        'setup_cmd': './setup.sh',
        'hooks': {'guard': 'PJPLAN_VERIF', 'enable': 'no source hooks: stubs are installed by rebinding module globals '
                  'of the imported pjplan modules from the harness process', 'baseline_off_cmd':
                  'cd /repo && /venv/bin/python -m pytest -ra -q -p no:cacheprovider --timeout=900 '
                  '--continue-on-collection-errors', 'source_commits': [], 'add_only': True},
        'engines': [{'name': 'symx', 'path': '/verif/symx', 'serves_properties': [c['property_id'] for c in checks],
                     'kind_free_text': 'concolic / bounded symbolic execution of CPython code on the z3 Python API '
                                       '(proxy values, solver-decided branches, work-list of decision prefixes, 16 '
                                       'worker processes, native replay of counterexamples)'}],
        'checks': checks,
        'not_applicable': na,
        'notes': 'Exit codes: 0 held on everything explored; 1 VIOLATION (replayed natively first); 2 engine/harness '
                 'error (no verdict). coverage.exhaustive says whether the bounded space was exhausted.',
    }
    with open(os.path.join(os.path.dirname(__file__), 'MANIFEST.json'), 'w') as f:
        json.dump(m, f, indent=1)
    print('checks', len(checks), 'not_applicable', len(na))


if __name__ == '__main__':
    main()
