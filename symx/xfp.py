"""Binary64 values as z3 floating-point terms (round-nearest-even): counterexample SEARCH for
rounding-sensitive code.  unsat answers are beyond z3's reach here (see DESIGN.md) and are
reported as inconclusive."""
import z3

from . import core
from .core import SymBool

F64 = z3.Float64()
RNE = z3.RNE()


def _f(x):
    if isinstance(x, SymFloat):
        return x.e
    if isinstance(x, (int, float)):
        return z3.FPVal(float(x), F64)
    raise TypeError(type(x))


class SymFloat:
    __slots__ = ('e', 'tag')

    def __init__(self, e, tag=None):
        self.e = e
        self.tag = tag

    def __add__(self, o):
        return SymFloat(z3.fpAdd(RNE, self.e, _f(o)))

    def __radd__(self, o):
        return SymFloat(z3.fpAdd(RNE, _f(o), self.e))

    def __sub__(self, o):
        return SymFloat(z3.fpSub(RNE, self.e, _f(o)))

    def __rsub__(self, o):
        return SymFloat(z3.fpSub(RNE, _f(o), self.e))

    def __mul__(self, o):
        return SymFloat(z3.fpMul(RNE, self.e, _f(o)))

    __rmul__ = __mul__

    def __neg__(self):
        return SymFloat(z3.fpNeg(self.e))

    def __abs__(self):
        return SymFloat(z3.fpAbs(self.e))

    def __lt__(self, o):
        return SymBool(z3.fpLT(self.e, _f(o)))

    def __le__(self, o):
        return SymBool(z3.fpLEQ(self.e, _f(o)))

    def __gt__(self, o):
        return SymBool(z3.fpGT(self.e, _f(o)))

    def __ge__(self, o):
        return SymBool(z3.fpGEQ(self.e, _f(o)))

    def __eq__(self, o):
        if o is None:
            return False
        return SymBool(z3.fpEQ(self.e, _f(o)))

    def __ne__(self, o):
        if o is None:
            return True
        return SymBool(z3.Not(z3.fpEQ(self.e, _f(o))))

    def __hash__(self):
        return core.HASH_CONST

    def __repr__(self):
        return f'<SymFloat {self.tag or "expr"}>'

    __str__ = __repr__


def fresh_float(name, lo, hi):
    c = core.ctx()
    if c.mode == 'native':
        return float(c.native_model[name])
    v = z3.FP(name, F64)
    c.inputs[name] = v
    c.add(z3.And(z3.fpGEQ(v, z3.FPVal(float(lo), F64)), z3.fpLEQ(v, z3.FPVal(float(hi), F64))))
    return SymFloat(v, tag=name)


def to_real(x):
    return z3.fpToReal(x.e) if isinstance(x, SymFloat) else z3.RealVal(x)
