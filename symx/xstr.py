"""Symbolic strings as ropes: a `SymStr` is a real `str` (subclass) whose buffer is a unique
private-use token, so it survives C-level formatting (f-strings, join, format, csv, json);
its length is a symbolic int and its content is uninterpreted (constrained only by what the
harness states, e.g. "no newline").  `xlen` computes the symbolic length of any string that
contains such tokens; `' ' * SymInt` yields a pad token."""
import re

import z3

from . import core
from .core import SymInt

OPEN, CLOSE = '\ue000', '\ue001'
_TOK = re.compile(OPEN + r'(\d+)' + CLOSE)


class Atom:
    __slots__ = ('id', 'length', 'kind', 'name', 'unit')

    def __init__(self, id, length, kind, name, unit=None):
        self.id, self.length, self.kind, self.name, self.unit = id, length, kind, name, unit


def _reg():
    c = core.ctx()
    r = c.notes.get('_atoms')
    if r is None:
        r = c.notes['_atoms'] = {}
    return r


class SymStr(str):
    """str subclass carrying a token; all str methods work on the token text."""
    __slots__ = ()

    @property
    def atom(self):
        m = _TOK.fullmatch(str.__str__(self))
        return _reg()[int(m.group(1))] if m else None


def _new(length, kind, name, unit=None):
    r = _reg()
    i = len(r) + 1
    r[i] = Atom(i, length, kind, name, unit)
    return SymStr(f'{OPEN}{i}{CLOSE}')


def fresh_str(name, min_len=0, max_len=None):
    """A string of symbolic length (content uninterpreted).  Native mode: a concrete string
    of the model's length."""
    n = core.fresh_int(name + '#len', min_len, max_len if max_len is not None else 10 ** 6)
    if core.is_native():
        alphabet = 'abcdefghijklmnopqrstuvwxyz'
        return ''.join(alphabet[(k + len(name)) % 26] for k in range(n))
    return _new(n, 'atom', name)


def pad(unit, n):
    """unit * n for a symbolic n (Python semantics: empty for n <= 0)."""
    ln = SymInt(z3.If(n.e > 0, n.e, z3.IntVal(0)) * len(unit))
    return _new(ln, 'pad', 'pad', unit)


def _symint_rmul(self, other):
    if isinstance(other, str):
        return pad(other, self)
    return core._SymNum.__rmul__(self, other)


def _symint_mul(self, other):
    if isinstance(other, str):
        return pad(other, self)
    return core._SymNum.__mul__(self, other)


def install():
    """str * SymInt support: SymInt must not offer __index__, else str.__mul__ would concretise it."""
    if '__index__' in SymInt.__dict__:
        delattr(SymInt, '__index__')
    SymInt.__rmul__ = _symint_rmul
    SymInt.__mul__ = _symint_mul


def segments(s):
    """[('text', str) | ('atom', Atom)] of a string with tokens."""
    out = []
    pos = 0
    raw = str.__str__(s) if isinstance(s, str) else str(s)
    reg = _reg() if core.ctx() is not None and not core.is_native() else {}
    for m in _TOK.finditer(raw):
        if m.start() > pos:
            out.append(('text', raw[pos:m.start()]))
        out.append(('atom', reg[int(m.group(1))]))
        pos = m.end()
    if pos < len(raw):
        out.append(('text', raw[pos:]))
    return out


_builtin_len = len


def xlen(x):
    """len() that understands tokens; identical to len() on everything else."""
    if isinstance(x, str):
        raw = str.__str__(x)
        if OPEN not in raw:
            return _builtin_len(raw)
        tot = 0
        for kind, v in segments(raw):
            if kind == 'text':
                tot = tot + _builtin_len(v)
            else:
                tot = tot + v.length
        return tot
    return _builtin_len(x)


def split_lines(s):
    """Split on concrete newlines (atoms are assumed newline-free)."""
    lines = [[]]
    for kind, v in segments(s):
        if kind == 'atom':
            lines[-1].append((kind, v))
        else:
            parts = v.split('\n')
            for k, p in enumerate(parts):
                if k > 0:
                    lines.append([])
                if p:
                    lines[-1].append(('text', p))
    return lines


def seg_len(segs):
    tot = 0
    for kind, v in segs:
        tot = tot + (_builtin_len(v) if kind == 'text' else v.length)
    return tot


# ---------------------------------------------------------------------------
# decimal renderings of symbolic numbers (csv, f-strings): str(x) is a token that int()/float() map back to x

_builtin_int, _builtin_float = int, float


def decimal(sym):
    """Canonical token for str(sym) (one token per z3 term, so re-rendering gives the same text)."""
    r = _reg()
    key = ('dec', sym.e.get_id())
    hit = r.get(key)
    if hit is None:
        tok = _new(None, 'dec', 'decimal', sym)
        r[key] = tok
        hit = tok
    return hit


def _dec_atom(s):
    if isinstance(s, str):
        raw = str.__str__(s).strip()
        m = _TOK.fullmatch(raw)
        if m:
            a = _reg()[int(m.group(1))]
            if a.kind == 'dec':
                return a
            raise ValueError(f'invalid literal: symbolic text is not a number')
    return None


def xint(x=0, *a):
    at = _dec_atom(x) if not a else None
    if at is not None:
        if isinstance(at.unit, core.SymReal):
            raise ValueError("invalid literal for int() with base 10: a float rendering")
        return at.unit
    return _builtin_int(x, *a)


def xfloat(x=0.0):
    at = _dec_atom(x)
    if at is not None:
        u = at.unit
        return u if isinstance(u, core.SymReal) else core.SymReal(z3.ToReal(u.e))
    return _builtin_float(x)


def install_decimal():
    core._SymNum.__str__ = lambda self: decimal(self)
    core._SymNum.__format__ = lambda self, spec: decimal(self)
    core.SymBool.__str__ = lambda self: 'True' if bool(self) else 'False'


def raw(s):
    return str.__str__(s) if isinstance(s, str) else s
