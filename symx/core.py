"""symx core: path context, symbolic scalars, decisions, choose/assume/check.

One *path* = one execution of a harness function.  Branches on symbolic values are
decided by z3 (`Ctx.decide`); the untaken feasible side is pushed on a work-list as a
decision prefix and explored by re-execution.  In *native* mode the same harness runs
on plain Python values taken from a model (replay of counterexamples).
"""
import sys
import time
from fractions import Fraction

import z3

HASH_CONST = 0x5EED5EED
DAY_US = 86_400_000_000


class PathAbort(BaseException):
    """Path pruned (assume failed / infeasible / budget).  BaseException so that the
    code under test (which catches Exception at most) cannot swallow it."""

    def __init__(self, why='pruned'):
        super().__init__(why)
        self.why = why


class EngineError(Exception):
    """The engine met something it cannot model soundly on this path."""


class Nondeterminism(EngineError):
    pass


# ---------------------------------------------------------------------------
# context

class Ctx:
    """State of one path."""

    def __init__(self, mode='sym', prefix=(), model=None, choices=None, timeout_ms=10000):
        self.mode = mode
        self.prefix = list(prefix)
        self.trace = []  # entries ('d', bool) | ('c', k, n)
        self.pos = 0
        self.alts = []  # prefixes to explore later
        self.solver = None
        self.model = None  # z3 model known to satisfy the current path condition
        self.decided = {}  # ast id -> bool (facts decided on this path)
        self.decided0 = {}  # same, keyed by the unsimplified term
        self.keep = []  # keep z3 asts alive (ids stay unique)
        self.n_solver = 0
        self.solver_s = 0.0
        self.n_decisions = 0
        self.inconclusive = []  # labels of unknown answers
        self.violations = []
        self.known_hits = []
        self.checks = 0  # assertion queries posed
        self.checks_unsat = 0
        self.checks_trivial = 0
        self.notes = {}
        self.inputs = {}  # name -> z3 var (declared symbolic inputs)
        self.ranges = {}  # ast id of var -> (lo, hi)
        self.native_model = model or {}
        self.native_choices = list(choices or [])
        self.native_cpos = 0
        self.timeout_ms = timeout_ms
        self.degraded = []
        self.pending = []
        if mode == 'sym':
            self.solver = z3.Solver()
            self.solver.set('timeout', timeout_ms)

    # -- solver plumbing
    def _check(self, *extra):
        if self.pending:
            self.solver.add(*self.pending)
            self.pending = []
        t0 = time.perf_counter()
        r = self.solver.check(*extra)
        self.solver_s += time.perf_counter() - t0
        self.n_solver += 1
        return r

    def add(self, expr):
        """Add a constraint to the path condition; keep the cached model only if it
        still satisfies it."""
        self.pending.append(expr)
        if self.model is not None:
            try:
                if not z3.is_true(self.model.eval(expr, model_completion=True)):
                    self.model = None
            except z3.Z3Exception:
                self.model = None

    def ensure_model(self):
        if self.model is None:
            r = self._check()
            if r == z3.sat:
                self.model = self.solver.model()
            elif r == z3.unsat:
                raise PathAbort('infeasible')
            else:
                self.inconclusive.append('path-condition unknown')
                raise PathAbort('unknown')
        return self.model

    # -- decisions
    def decide(self, expr):
        """Decide a z3 Bool on this path; returns a Python bool."""
        k0 = expr.get_id()
        hit = self.decided0.get(k0)
        if hit is not None:
            return hit
        r = self._decide(expr)
        self.keep.append(expr)
        self.decided0[k0] = r
        return r

    def _decide(self, expr):
        e = z3.simplify(expr)
        if z3.is_true(e):
            return True
        if z3.is_false(e):
            return False
        q = self._quick(e)
        if q is not None:
            return q
        k = e.get_id()
        if k in self.decided:
            return self.decided[k]
        self.n_decisions += 1
        if self.pos < len(self.prefix):
            ent = self.prefix[self.pos]
            if ent[0] != 'd':
                raise Nondeterminism(f'expected choose at {self.pos}, got decision {e}')
            side = ent[1]
            self.pos += 1
            self.trace.append(('d', side))
            self.pending.append(e if side else z3.Not(e))
            self.model = None
            self._remember(e, side)
            return side
        # new decision
        m = self.ensure_model()
        side = z3.is_true(m.eval(e, model_completion=True))
        other = z3.Not(e) if side else e
        r = self._check(other)
        if r == z3.sat:
            self.alts.append(self.trace + [('d', not side)])
        elif r == z3.unknown:
            self.inconclusive.append('decision unknown')
        self.pos += 1
        self.trace.append(('d', side))
        self.pending.append(e if side else z3.Not(e))
        self._remember(e, side)
        return side

    def _remember(self, e, side):
        self.keep.append(e)
        self.decided[e.get_id()] = side
        if z3.is_not(e):
            c = e.arg(0)
            self.keep.append(c)
            self.decided[c.get_id()] = not side

    def _quick(self, e):
        """Cheap refutation of `var == const` / `var <= const` by declared ranges."""
        if not self.ranges:
            return None
        neg = False
        if z3.is_not(e):
            e = e.arg(0)
            neg = True
        if z3.is_eq(e) and e.num_args() == 2:
            a, b = e.arg(0), e.arg(1)
            if z3.is_int_value(a):
                a, b = b, a
            if z3.is_int_value(b):
                rg = self.ranges.get(a.get_id())
                if rg is not None:
                    v = b.as_long()
                    if (rg[0] is not None and v < rg[0]) or (rg[1] is not None and v > rg[1]):
                        return neg  # eq is False
        return None

    def choose(self, name, n):
        if n <= 0:
            raise EngineError('choose(0)')
        if self.mode == 'native':
            if self.native_cpos >= len(self.native_choices):
                raise PathAbort('end of the recorded choices')  # the violation was recorded before this point
            k = self.native_choices[self.native_cpos]
            self.native_cpos += 1
            if k[0] != name:
                raise Nondeterminism(f'native replay: expected choose {k[0]}, got {name}')
            return k[1]
        if n == 1:
            self.notes.setdefault('choices', []).append((name, 0))
            return 0
        if self.pos < len(self.prefix):
            ent = self.prefix[self.pos]
            if ent[0] != 'c' or ent[2] != n:
                raise Nondeterminism(f'expected {ent} at {self.pos}, got choose {name}/{n}')
            k = ent[1]
        else:
            k = 0
            for j in range(n - 1, 0, -1):
                self.alts.append(self.trace + [('c', j, n)])
        self.pos += 1
        self.trace.append(('c', k, n))
        self.notes.setdefault('choices', []).append((name, k))
        return k


_ctx = None


def ctx():
    return _ctx


def set_ctx(c):
    global _ctx
    _ctx = c


def is_native():
    return _ctx is not None and _ctx.mode == 'native'


# ---------------------------------------------------------------------------
# symbolic scalars

def _z(x):
    """python/symbolic value -> z3 arith expr"""
    if isinstance(x, (SymInt, SymReal)):
        return x.e
    if isinstance(x, bool):
        return z3.IntVal(int(x))
    if isinstance(x, int):
        return z3.IntVal(x)
    if isinstance(x, float):
        f = Fraction(x)
        return z3.RealVal(f)
    if isinstance(x, Fraction):
        return z3.RealVal(x)
    raise TypeError(f'cannot lift {type(x)}')


def _zb(x):
    if isinstance(x, SymBool):
        return x.e
    if isinstance(x, bool):
        return z3.BoolVal(x)
    raise TypeError(f'cannot lift {type(x)} to Bool')


def _is_num(x):
    return isinstance(x, (int, float, Fraction)) and not isinstance(x, bool) or isinstance(x, bool)


class SymBool:
    __slots__ = ('e',)

    def __init__(self, e):
        self.e = e

    def __bool__(self):
        return _ctx.decide(self.e)

    def __and__(self, o):
        return SymBool(z3.And(self.e, _zb(o)))

    __rand__ = __and__

    def __or__(self, o):
        return SymBool(z3.Or(self.e, _zb(o)))

    __ror__ = __or__

    def __invert__(self):
        return SymBool(z3.Not(self.e))

    def __eq__(self, o):
        if isinstance(o, (SymBool, bool)):
            return SymBool(self.e == _zb(o))
        return NotImplemented

    def __ne__(self, o):
        if isinstance(o, (SymBool, bool)):
            return SymBool(self.e != _zb(o))
        return NotImplemented

    def __hash__(self):
        return HASH_CONST

    def __repr__(self):
        return '<SymBool>'

    __str__ = __repr__

    def __format__(self, spec):
        # str(milestone) etc: decide
        return format(bool(self), spec)


def And(*xs):
    if all(isinstance(x, bool) for x in xs):
        return all(xs)
    return SymBool(z3.And(*[_zb(x) for x in xs]))


def Or(*xs):
    if all(isinstance(x, bool) for x in xs):
        return any(xs)
    return SymBool(z3.Or(*[_zb(x) for x in xs]))


def Not(x):
    if isinstance(x, bool):
        return not x
    return SymBool(z3.Not(_zb(x)))


def Implies(a, b):
    return Or(Not(a), b)


def Iff(a, b):
    if isinstance(a, bool) and isinstance(b, bool):
        return a == b
    return SymBool(_zb(a) == _zb(b))


class _SymNum:
    __slots__ = ('e', 'tag', 'rng')
    is_real = False

    def __init__(self, e, tag=None, rng=None):
        self.e = e
        self.tag = tag
        self.rng = rng  # (lo, hi) declared range of a fresh variable: constants outside it compare without the solver

    # construction helpers
    @staticmethod
    def _wrap(e):
        if e.sort() == z3.IntSort():
            return SymInt(e)
        return SymReal(e)

    @staticmethod
    def _lift2(a, b):
        ea, eb = _z(a), _z(b)
        if ea.sort() != eb.sort():
            if ea.sort() == z3.IntSort():
                ea = z3.ToReal(ea)
            else:
                eb = z3.ToReal(eb)
        return ea, eb

    def _bin(self, o, f):
        if not isinstance(o, (_SymNum, int, float, Fraction)):
            return NotImplemented
        a, b = self._lift2(self, o)
        return self._wrap(f(a, b))

    def _rbin(self, o, f):
        if not isinstance(o, (_SymNum, int, float, Fraction)):
            return NotImplemented
        a, b = self._lift2(o, self)
        return self._wrap(f(a, b))

    def _cmp(self, o, f):
        if not isinstance(o, (_SymNum, int, float, Fraction)):
            return NotImplemented
        a, b = self._lift2(self, o)
        return SymBool(f(a, b))

    def __add__(self, o):
        return self._bin(o, lambda a, b: a + b)

    def __radd__(self, o):
        return self._rbin(o, lambda a, b: a + b)

    def __sub__(self, o):
        return self._bin(o, lambda a, b: a - b)

    def __rsub__(self, o):
        return self._rbin(o, lambda a, b: a - b)

    def __mul__(self, o):
        return self._bin(o, lambda a, b: a * b)

    def __rmul__(self, o):
        if isinstance(o, str):
            return NotImplemented
        return self._rbin(o, lambda a, b: a * b)

    def __neg__(self):
        return self._wrap(-self.e)

    def __pos__(self):
        return self

    def __abs__(self):
        return self._wrap(z3.If(self.e >= 0, self.e, -self.e))

    def __truediv__(self, o):
        if not isinstance(o, (_SymNum, int, float, Fraction)):
            return NotImplemented
        if isinstance(o, _SymNum):
            if bool(o == 0):
                raise ZeroDivisionError('division by zero')
        elif o == 0:
            raise ZeroDivisionError('division by zero')
        a, b = _z(self), _z(o)
        if a.sort() == z3.IntSort():
            a = z3.ToReal(a)
        if b.sort() == z3.IntSort():
            b = z3.ToReal(b)
        return SymReal(a / b)

    def __rtruediv__(self, o):
        if not isinstance(o, (int, float, Fraction)):
            return NotImplemented
        if bool(self == 0):
            raise ZeroDivisionError('division by zero')
        a, b = _z(o), self.e
        if a.sort() == z3.IntSort():
            a = z3.ToReal(a)
        if b.sort() == z3.IntSort():
            b = z3.ToReal(b)
        return SymReal(a / b)

    def __eq__(self, o):
        if o is None:
            return False
        r = self.rng
        if r is not None and type(o) is int and (o < r[0] or o > r[1]):
            return False
        return self._cmp(o, lambda a, b: a == b)

    def __ne__(self, o):
        if o is None:
            return True
        r = self.rng
        if r is not None and type(o) is int and (o < r[0] or o > r[1]):
            return True
        return self._cmp(o, lambda a, b: a != b)

    def __lt__(self, o):
        return self._cmp(o, lambda a, b: a < b)

    def __le__(self, o):
        return self._cmp(o, lambda a, b: a <= b)

    def __gt__(self, o):
        return self._cmp(o, lambda a, b: a > b)

    def __ge__(self, o):
        return self._cmp(o, lambda a, b: a >= b)

    def __hash__(self):
        return HASH_CONST

    def __bool__(self):
        return _ctx.decide(self.e != 0)

    # cheap on purpose: pretty-printing z3 terms is very slow and pjplan formats values into messages
    def __repr__(self):
        return f'<{type(self).__name__} {self.tag or "expr"}>'

    def __str__(self):
        return f'<sym {self.tag or "expr"}>'

    def __format__(self, spec):
        return f'<sym {self.tag or "expr"}>'


class SymInt(_SymNum):
    __slots__ = ()

    def __floordiv__(self, o):
        if isinstance(o, int) and o > 0:
            return SymInt(self.e / o)  # z3 int div == floor for positive divisor
        return NotImplemented

    def __mod__(self, o):
        if isinstance(o, int) and o > 0:
            return SymInt(self.e % o)
        return NotImplemented

    def __index__(self):
        return concretize_int(self)

    def __int__(self):
        return concretize_int(self)


class SymReal(_SymNum):
    __slots__ = ()
    is_real = True

    def __round__(self, ndigits=None):
        # round half even, exact on rationals (binary64 agrees unless the decimal tie is not representable)
        scale = 10 ** (ndigits or 0)
        r = self.e * scale
        k = z3.ToInt(r + z3.RealVal(Fraction(1, 2)))
        tie = z3.And(z3.ToReal(k) == r + z3.RealVal(Fraction(1, 2)), k % 2 == 1)
        k = z3.If(tie, k - 1, k)
        if ndigits is None:
            return SymInt(k)
        return SymReal(z3.ToReal(k) / scale)

    def __float__(self):
        raise EngineError('float() of a symbolic real')


def concretize_int(x, lo=None, hi=None):
    """Fork on the value of a SymInt (must be range-bounded by the path condition)."""
    c = _ctx
    m = c.ensure_model()
    v = m.eval(x.e, model_completion=True).as_long()
    for _ in range(64):
        if bool(x == v):
            return v
        m = c.ensure_model()
        v = m.eval(x.e, model_completion=True).as_long()
    raise EngineError('concretize_int: too many values')


# ---------------------------------------------------------------------------
# harness API

def fresh_int(name, lo=None, hi=None):
    c = _ctx
    if c.mode == 'native':
        return int(c.native_model[name])
    ck = (name, lo, hi)
    hit = _FRESH_CACHE.get(ck)
    if hit is None:
        v = z3.Int(name)
        cons = []
        if lo is not None:
            cons.append(v >= lo)
        if hi is not None:
            cons.append(v <= hi)
        hit = _FRESH_CACHE[ck] = (v, z3.And(*cons) if len(cons) > 1 else (cons[0] if cons else None))
    v, con = hit
    c.inputs[name] = v
    c.ranges[v.get_id()] = (lo, hi)
    if con is not None:
        c.add(con)
    return SymInt(v, tag=name, rng=(lo, hi) if lo is not None and hi is not None else None)


_FRESH_CACHE = {}


def const_int(value):
    """A constant-valued symbolic int (keeps the constant hash of symbolic ids)."""
    if _ctx.mode == 'native':
        return value
    return SymInt(z3.IntVal(value))


def fresh_real(name, lo=None, hi=None, grid=4):
    """Rational on the grid 1/grid within [lo, hi] (binary64-exact for dyadic grids);
    grid=None: any real in [lo, hi] (pure LRA; native replay rounds to binary64)."""
    c = _ctx
    if c.mode == 'native':
        fr = Fraction(c.native_model[name])
        return float(fr) if fr.denominator != 1 else int(fr)
    ck = ('real', name, lo, hi, grid)
    hit = _FRESH_CACHE.get(ck)
    if hit is None:
        cons = []
        if grid is None:
            v = z3.Real(name)
            e = v
            if lo is not None:
                cons.append(v >= z3.RealVal(Fraction(lo)))
            if hi is not None:
                cons.append(v <= z3.RealVal(Fraction(hi)))
        else:
            v = z3.Int(name + '#k')
            e = z3.ToReal(v) / grid
            if lo is not None:
                cons.append(v >= int(lo * grid))
            if hi is not None:
                cons.append(v <= int(hi * grid))
        hit = _FRESH_CACHE[ck] = (e, z3.And(*cons) if len(cons) > 1 else (cons[0] if cons else None))
    e, con = hit
    c.inputs[name] = e
    if con is not None:
        c.add(con)
    return SymReal(e, tag=name)


def fresh_bool(name):
    c = _ctx
    if c.mode == 'native':
        return bool(c.native_model[name])
    v = z3.Bool(name)
    c.inputs[name] = v
    return SymBool(v)


def choose(name, n):
    return _ctx.choose(name, n)


def choose_from(name, seq):
    seq = list(seq)
    return seq[_ctx.choose(name, len(seq))]


def assume(cond, why='assume'):
    c = _ctx
    if isinstance(cond, bool):
        if not cond:
            raise PathAbort(why)
        return
    if c.mode == 'native':
        if not bool(cond):
            raise PathAbort(why)
        return
    e = z3.simplify(_zb(cond))
    if z3.is_true(e):
        return
    if z3.is_false(e):
        raise PathAbort(why)
    c.add(e)
    c.ensure_model()


def note(key, value):
    _ctx.notes[key] = value


def info():
    return _ctx.notes


def _model_dict(c, m):
    out = {}
    for name, v in c.inputs.items():
        val = m.eval(v, model_completion=True)
        if z3.is_int_value(val):
            out[name] = val.as_long()
        elif z3.is_rational_value(val):
            out[name] = str(val.as_fraction())
        elif z3.is_true(val) or z3.is_false(val):
            out[name] = z3.is_true(val)
        elif z3.is_fp(val):
            try:
                out[name] = float(val.as_string()) if not val.isNaN() else float('nan')
            except Exception:
                out[name] = str(val)
        else:
            out[name] = str(val)
    return out


def check(cond, label, known=(), detail=None):
    """Property assertion.  Symbolic: ask the solver for values on this path that
    falsify `cond`.  `known` = [(finding_id, predicate)]: counterexamples satisfying a
    listed predicate are reported as known findings; any other one is a violation.
    Returns True when the assertion holds on the whole path."""
    c = _ctx
    c.checks += 1
    if c.mode == 'native':
        ok = bool(cond)
        if not ok:
            c.violations.append({'label': label, 'detail': detail})
        return ok
    if isinstance(cond, bool):
        e = z3.BoolVal(cond)
    else:
        e = z3.simplify(_zb(cond))
    if z3.is_true(e):
        c.checks_trivial += 1
        c.checks_unsat += 1
        return True
    neg = z3.Not(e)
    active = [(kid, p) for kid, p in known if kid in ACTIVE_KNOWN]
    if active:
        excl = [z3.Not(_zb(p)) if not isinstance(p, bool) else z3.BoolVal(not p) for _, p in active]
        r = c._check(neg, *excl)
    else:
        r = c._check(neg)
        if XCHECK_EVERY and r != z3.unknown:
            _xcheck(c, neg, r)
    if r == z3.sat:
        m = c.solver.model()
        c.violations.append({'label': label, 'detail': detail, 'model': _model_dict(c, m),
                             'choices': list(c.notes.get('choices', [])),
                             'notes': {k: v for k, v in c.notes.items() if k != 'choices' and not k.startswith('_')}})
        ok = False
    elif r == z3.unknown:
        c.inconclusive.append('check unknown: ' + label)
        ok = True
    else:
        ok = True
        if active:
            # is it only the known region that fails?
            r2 = c._check(neg)
            if r2 == z3.sat:
                m = c.solver.model()
                for kid, p in active:
                    pv = p if isinstance(p, bool) else z3.is_true(m.eval(_zb(p), model_completion=True))
                    if pv:
                        c.known_hits.append({'finding': kid, 'label': label, 'model': _model_dict(c, m),
                                             'choices': list(c.notes.get('choices', []))})
                        break
                ok = False
            elif r2 == z3.unknown:
                c.inconclusive.append('check unknown: ' + label)
            else:
                c.checks_unsat += 1
        else:
            c.checks_unsat += 1
    if not ok or r == z3.unknown:
        # continue the path under the assumption that the assertion holds (finds further ones)
        c.add(e)
        if c._check() != z3.sat:
            raise PathAbort('assertion fails on the whole path')
        c.model = c.solver.model()
    return ok


ACTIVE_KNOWN = set()

# second-solver cross-check (thorough tier): every XCHECK_EVERY-th assertion query is dumped as SMT-LIB2 and re-decided
# by the system z3 4.8.12 binary; disagreement or an (error line makes the run an engine error
XCHECK_EVERY = 0
_xcheck_n = [0]


def _xcheck(c, neg, result):
    import os
    import subprocess
    import tempfile
    _xcheck_n[0] += 1
    if not XCHECK_EVERY or _xcheck_n[0] % XCHECK_EVERY:
        return
    s2 = z3.Solver()
    s2.add(c.solver.assertions())
    s2.add(neg)
    txt = '(set-option :timeout 20000)\n' + s2.to_smt2()
    fd, path = tempfile.mkstemp(suffix='.smt2', prefix='symx-x-')
    try:
        with os.fdopen(fd, 'w') as f:
            f.write(txt)
        out = subprocess.run(['/usr/bin/z3', '-smt2', path], stdout=subprocess.PIPE, stderr=subprocess.STDOUT, text=True,
                             timeout=60).stdout
    except Exception as ex:
        out = 'unknown ' + type(ex).__name__
    finally:
        try:
            os.unlink(path)
        except OSError:
            pass
    first = out.strip().splitlines()[0] if out.strip() else 'unknown'
    cnt = c.notes.setdefault('count', {})
    if '(error' in out:
        cnt['xcheck_error'] = cnt.get('xcheck_error', 0) + 1
    elif first in ('sat', 'unsat'):
        if first == str(result):
            cnt['xcheck_agree'] = cnt.get('xcheck_agree', 0) + 1
        else:
            cnt['xcheck_disagree'] = cnt.get('xcheck_disagree', 0) + 1
            c.notes['xcheck_disagreement'] = f'z3 5.1 says {result}, z3 4.8.12 says {first}'
    else:
        cnt['xcheck_unknown'] = cnt.get('xcheck_unknown', 0) + 1


def check_all(items):
    """items: [(cond, label, detail)].  One solver query for the conjunction; individual
    queries only when it fails.  Returns True when all hold on the whole path."""
    c = _ctx
    items = list(items)
    if c.mode == 'native' or len(items) <= 1:
        ok = True
        for cond, label, detail in items:
            ok = check(cond, label, detail=detail) and ok
        return ok
    es = []
    for cond, label, detail in items:
        es.append(z3.BoolVal(cond) if isinstance(cond, bool) else _zb(cond))
    conj = z3.simplify(z3.And(*es))
    if z3.is_true(conj):
        c.checks += len(items)
        c.checks_trivial += len(items)
        c.checks_unsat += len(items)
        return True
    r = c._check(z3.Not(conj))
    if XCHECK_EVERY and r != z3.unknown:
        _xcheck(c, z3.Not(conj), r)
    if r == z3.unsat:
        c.checks += len(items)
        c.checks_unsat += len(items)
        return True
    ok = True
    for cond, label, detail in items:
        ok = check(cond, label, detail=detail) and ok
    return ok



def fail(label, known=(), detail=None):
    return check(False, label, known=known, detail=detail)


def sym_max(a, b):
    return b if bool(b > a) else a


def is_sym(x):
    return isinstance(x, (_SymNum, SymBool))
