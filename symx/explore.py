"""Work-list exploration of a harness over all decision prefixes, in parallel."""
import multiprocessing as mp
import os
import signal
import sys
import time
import traceback

from . import core
from .core import Ctx, PathAbort, EngineError, set_ctx


class PathTimeout(BaseException):
    pass


def _alarm(signum, frame):
    raise PathTimeout()


class Stats:
    FIELDS = ('paths', 'completed', 'pruned', 'timed_out', 'errors', 'decisions', 'solver_queries',
              'checks', 'checks_unsat', 'checks_trivial', 'reached', 'nontrivial')

    def __init__(self):
        for f in self.FIELDS:
            setattr(self, f, 0)
        self.solver_s = 0.0
        self.inconclusive = []
        self.violations = []
        self.known_hits = []
        self.error_msgs = []
        self.prune_reasons = {}
        self.classes = set()
        self.states = set()
        self.samples = []
        self.counters = {}

    def merge(self, o):
        for f in self.FIELDS:
            setattr(self, f, getattr(self, f) + getattr(o, f))
        self.solver_s += o.solver_s
        self.inconclusive += o.inconclusive[:20]
        self.violations += o.violations
        self.known_hits += o.known_hits
        self.error_msgs += o.error_msgs[:5]
        for k, v in o.prune_reasons.items():
            self.prune_reasons[k] = self.prune_reasons.get(k, 0) + v
        self.classes |= o.classes
        self.states |= o.states
        for k, v in o.counters.items():
            self.counters[k] = self.counters.get(k, 0) + v
        if len(self.samples) < 6:
            self.samples += o.samples[:2]


def run_path(harness, cfg, prefix, path_timeout=20, solver_timeout_ms=10000):
    """Execute one path.  Returns (ctx, status)."""
    c = Ctx('sym', prefix, timeout_ms=solver_timeout_ms)
    set_ctx(c)
    status = 'completed'
    old = signal.signal(signal.SIGALRM, _alarm)
    signal.setitimer(signal.ITIMER_REAL, path_timeout)
    try:
        harness(cfg)
    except PathAbort as a:
        status = 'pruned:' + a.why
    except PathTimeout:
        status = 'timeout'
    except RecursionError:
        status = 'error'
        c.notes['error'] = 'RecursionError escaped the harness'
    except EngineError as e:
        status = 'error'
        c.notes['error'] = f'{type(e).__name__}: {e}'
    except Exception as e:  # harness bug
        status = 'error'
        c.notes['error'] = f'{type(e).__name__}: {e}\n' + traceback.format_exc(limit=8)
    finally:
        signal.setitimer(signal.ITIMER_REAL, 0)
        signal.signal(signal.SIGALRM, old)
        set_ctx(None)
    return c, status


def explore_unit(args):
    """Explore the subtree under one prefix, depth first, within a budget.  Returns
    (Stats, leftover_prefixes)."""
    harness_ref, cfg, prefix, budget_paths, budget_s, opts = args
    harness = _resolve(harness_ref)
    st = Stats()
    stack = [prefix]
    t0 = time.time()
    while stack:
        if st.paths >= budget_paths or time.time() - t0 > budget_s:
            break
        p = stack.pop()
        c, status = run_path(harness, cfg, p, opts.get('path_timeout', 20), opts.get('solver_timeout_ms', 10000))
        st.paths += 1
        st.decisions += c.n_decisions
        st.solver_queries += c.n_solver
        st.solver_s += c.solver_s
        st.checks += c.checks
        st.checks_unsat += c.checks_unsat
        st.checks_trivial += c.checks_trivial
        if c.checks > 0:
            st.reached += 1
        if c.checks > c.checks_trivial:
            st.nontrivial += 1
        cls = c.notes.get('class')
        if cls is not None and c.checks > 0:
            st.classes.add(cls)
            if c.notes.get('state') is not None:
                st.states.add(c.notes['state'])
        for k, v in c.notes.get('count', {}).items():
            st.counters[k] = st.counters.get(k, 0) + v
        st.inconclusive += c.inconclusive
        for v in c.violations:
            v['prefix'] = c.trace
            st.violations.append(v)
        st.known_hits += c.known_hits
        if status == 'completed':
            st.completed += 1
            if len(st.samples) < 2 and c.checks > 0:
                st.samples.append(_sample(c))
        elif status.startswith('pruned'):
            st.pruned += 1
            why = status[7:]
            st.prune_reasons[why] = st.prune_reasons.get(why, 0) + 1
            if why == 'unknown':
                st.inconclusive.append('path pruned on unknown')
        elif status == 'timeout':
            st.timed_out += 1
            st.inconclusive.append('path timeout: ' + str(c.notes.get('class')))
        else:
            # degraded path: something on it is not modelled.  Sample it: one model of the path condition, native run.
            handled = False
            try:
                core.set_ctx(c)
                try:
                    m = c.ensure_model()
                    model = core._model_dict(c, m)
                finally:
                    core.set_ctx(None)
                nat = run_native(harness, cfg, model, c.notes.get('choices', []))
                st.counters['degraded_paths_sampled_natively'] = st.counters.get('degraded_paths_sampled_natively', 0) + 1
                st.inconclusive.append('degraded path (sampled natively, not decided): ' + str(c.notes.get('error'))[:120])
                for v in nat:
                    st.violations.append({'label': v['label'], 'detail': v.get('detail'), 'model': model,
                                          'choices': list(c.notes.get('choices', [])),
                                          'notes': {'desc': c.notes.get('desc'), 'degraded': True}, 'prefix': c.trace})
                handled = True
            except BaseException as ex:
                handled = False
                c.notes['error'] = str(c.notes.get('error')) + f' | native fallback failed: {type(ex).__name__}: {ex}'
            if not handled:
                st.errors += 1
                st.error_msgs.append(str(c.notes.get('error')) + ' @ ' + str(c.notes.get('class')) + ' choices=' + str(c.notes.get('choices')))
        stack.extend(c.alts)
    return st, stack


def _sample(c):
    out = {'choices': [list(x) for x in c.notes.get('choices', [])][:40],
           'class': c.notes.get('class'),
           'assertions_posed': c.checks, 'decisions': c.n_decisions}
    try:
        if c.inputs and c.model is None:
            c.ensure_model()
        if c.model is not None:
            out['one_model_of_symbolic_inputs'] = core._model_dict(c, c.model)
    except BaseException:
        pass
    if 'desc' in c.notes:
        out['desc'] = c.notes['desc']
    return out


_HARNESSES = {}


def register(name, fn):
    _HARNESSES[name] = fn


def _resolve(ref):
    if callable(ref):
        return ref
    return _HARNESSES[ref]


def explore(harness, cfg, workers=None, unit_paths=150, unit_s=15.0, deadline_s=None, opts=None, progress=None):
    """Explore all paths of harness(cfg).  Returns (Stats, exhausted: bool)."""
    opts = opts or {}
    workers = workers or int(os.environ.get('SYMX_WORKERS', 0)) or min(16, os.cpu_count() or 1)
    total = Stats()
    t0 = time.time()
    pending = [[]]
    exhausted = True
    if workers == 1:
        while pending:
            if deadline_s and time.time() - t0 > deadline_s:
                exhausted = False
                break
            st, left = explore_unit((harness, cfg, pending.pop(), unit_paths, unit_s, opts))
            total.merge(st)
            pending.extend(left)
        return total, exhausted and not pending
    ctxm = mp.get_context('fork')
    with ctxm.Pool(workers) as pool:
        inflight = []
        # seed: run the first unit small to fan out
        first = True
        while pending or inflight:
            if deadline_s and time.time() - t0 > deadline_s:
                exhausted = False
                break
            while pending and len(inflight) < workers * 3:
                p = pending.pop()
                bp = 8 if first else unit_paths
                inflight.append(pool.apply_async(explore_unit, ((harness, cfg, p, bp, unit_s, opts),)))
                first = False
            done = [r for r in inflight if r.ready()]
            if not done:
                time.sleep(0.005)
                continue
            for r in done:
                inflight.remove(r)
                st, left = r.get()
                total.merge(st)
                # split leftovers into separate units for load balancing
                pending.extend(left)
            if progress and total.paths and (total.paths // 5000) != ((total.paths - sum(1 for _ in done)) // 5000):
                progress(total, len(pending), time.time() - t0)
        if not exhausted:
            pool.terminate()
    return total, exhausted and not pending


def run_native(harness, cfg, model, choices):
    """Replay one path natively.  Returns the list of violated labels (dicts)."""
    c = Ctx('native', model=model, choices=[tuple(x) for x in choices])
    set_ctx(c)
    try:
        harness(cfg)
    except PathAbort:
        pass
    except Exception as ex:
        # the harness went on after a recorded violation and then tripped over the broken state: what was recorded counts
        if not c.violations:
            raise
    finally:
        set_ctx(None)
    return c.violations
