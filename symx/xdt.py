"""Symbolic datetime/timedelta: (ordinal day: concrete int, µs-of-day: int | SymInt).

pjplan uses naive datetimes only.  The day is always concrete (harnesses choose days by
forking, and normalisation of a symbolic µs overflow forks), so weekday/year/month/day
are plain ints and only the time of day is symbolic.
"""
import datetime as _real
from fractions import Fraction

import z3

from . import core
from .core import SymInt, SymReal, SymBool, DAY_US, HASH_CONST, EngineError

_RD = _real.datetime
_RTD = _real.timedelta


def _round_half_even_frac(fr):
    fl = fr.numerator // fr.denominator
    rem = fr - fl
    if rem > Fraction(1, 2):
        return fl + 1
    if rem < Fraction(1, 2):
        return fl
    return fl if fl % 2 == 0 else fl + 1


def _to_us(x, factor):
    """x units * factor µs -> int | SymInt, rounded half-even as CPython's timedelta does."""
    if isinstance(x, bool):
        x = int(x)
    if isinstance(x, int):
        return x * factor
    if isinstance(x, float):
        return _round_half_even_frac(Fraction(x) * factor)
    if isinstance(x, Fraction):
        return _round_half_even_frac(x * factor)
    if isinstance(x, SymInt):
        return x * factor
    if isinstance(x, SymReal):
        r = x.e * factor
        k = z3.ToInt(r + z3.RealVal(Fraction(1, 2)))
        tie = z3.And(z3.ToReal(k) == r + z3.RealVal(Fraction(1, 2)), k % 2 == 1)
        return SymInt(z3.If(tie, k - 1, k))
    raise TypeError(f'timedelta component {type(x)}')


class XTimeDelta:
    __slots__ = ('days', 'us')

    def __init__(self, days=0, seconds=0, microseconds=0, milliseconds=0, minutes=0, hours=0, weeks=0):
        d = 0
        us = 0
        for val, factor in ((days, DAY_US), (seconds, 10 ** 6), (microseconds, 1), (milliseconds, 1000),
                            (minutes, 60 * 10 ** 6), (hours, 3600 * 10 ** 6), (weeks, 7 * DAY_US)):
            if isinstance(val, int) and val == 0:
                continue
            part = _to_us(val, factor)
            us = us + part
        if isinstance(us, int):
            d, us = divmod(us, DAY_US)
        self.days = d
        self.us = us

    @staticmethod
    def _mk(days, us):
        t = XTimeDelta.__new__(XTimeDelta)
        if isinstance(us, int):
            dd, us = divmod(us, DAY_US)
            days += dd
        t.days = days
        t.us = us
        return t

    def __neg__(self):
        return XTimeDelta._mk(-self.days, -self.us)

    def __add__(self, o):
        if isinstance(o, XTimeDelta):
            return XTimeDelta._mk(self.days + o.days, self.us + o.us)
        if isinstance(o, _RTD):
            return self + from_real_td(o)
        return NotImplemented

    def __sub__(self, o):
        if isinstance(o, XTimeDelta):
            return XTimeDelta._mk(self.days - o.days, self.us - o.us)
        if isinstance(o, _RTD):
            return self - from_real_td(o)
        return NotImplemented

    def total_us(self):
        return self.days * DAY_US + self.us

    def _cmp(self, o, f):
        if isinstance(o, _RTD):
            o = from_real_td(o)
        if not isinstance(o, XTimeDelta):
            return NotImplemented
        return f(self.total_us(), o.total_us())

    def __eq__(self, o):
        r = self._cmp(o, lambda a, b: a == b)
        return False if r is NotImplemented else r

    def __lt__(self, o):
        return self._cmp(o, lambda a, b: a < b)

    def __le__(self, o):
        return self._cmp(o, lambda a, b: a <= b)

    def __gt__(self, o):
        return self._cmp(o, lambda a, b: a > b)

    def __ge__(self, o):
        return self._cmp(o, lambda a, b: a >= b)

    def __hash__(self):
        return HASH_CONST

    def __repr__(self):
        return f'XTimeDelta(days={self.days}, us={self.us})'


def from_real_td(td):
    return XTimeDelta._mk(td.days, td.seconds * 10 ** 6 + td.microseconds)


_NOW = [None]


def set_now(v):
    """v: XDateTime | callable returning XDateTime | None"""
    _NOW[0] = v


_ORD = {}
_YMD = {}


def _ymd(o):
    r = _YMD.get(o)
    if r is None:
        d = _real.date.fromordinal(o)
        r = _YMD[o] = (d.year, d.month, d.day)
    return r


class XDateTime:
    __slots__ = ('o', 'us')

    def __init__(self, year, month=None, day=None, hour=0, minute=0, second=0, microsecond=0):
        k = (year, month, day)
        o = _ORD.get(k)
        if o is None:
            o = _ORD[k] = _real.date(year, month, day).toordinal()
        self.o = o
        us = ((hour * 60 + minute) * 60 + second) * 10 ** 6 + microsecond
        self.us = us

    @staticmethod
    def _mk(day, us):
        d = XDateTime.__new__(XDateTime)
        d.o = day
        d.us = us
        return d

    @classmethod
    def now(cls, tz=None):
        v = _NOW[0]
        if v is None:
            raise EngineError('datetime.now() called but no clock installed')
        return v() if callable(v) else v

    @classmethod
    def strptime(cls, s, fmt):
        return from_real(_RD.strptime(s, fmt))

    # components (day is concrete)
    @property
    def year(self):
        return _ymd(self.o)[0]

    @property
    def month(self):
        return _ymd(self.o)[1]

    @property
    def day(self):
        return _ymd(self.o)[2]

    def weekday(self):
        return (self.o + 6) % 7

    def date(self):
        return _real.date.fromordinal(self.o)

    def replace(self, year=None, month=None, day=None, hour=None, minute=None, second=None, microsecond=None, tzinfo=None):
        o = self.o
        if year is not None or month is not None or day is not None:
            y, m, d = _ymd(self.o)
            o = _real.date(year if year is not None else y, month if month is not None else m, day if day is not None else d).toordinal()
        if hour is None and minute is None and second is None and microsecond is None:
            return XDateTime._mk(o, self.us)
        us = self.us
        if isinstance(us, int):
            h, rem = divmod(us, 3600 * 10 ** 6)
            mi, rem = divmod(rem, 60 * 10 ** 6)
            se, mu = divmod(rem, 10 ** 6)
        else:
            # components of a symbolic time of day as integer terms
            h = us // (3600 * 10 ** 6)
            mi = (us % (3600 * 10 ** 6)) // (60 * 10 ** 6)
            se = (us % (60 * 10 ** 6)) // 10 ** 6
            mu = us % 10 ** 6
        h = hour if hour is not None else h
        mi = minute if minute is not None else mi
        se = second if second is not None else se
        mu = microsecond if microsecond is not None else mu
        return XDateTime._mk(o, ((h * 60 + mi) * 60 + se) * 10 ** 6 + mu)

    def midnight(self):
        return XDateTime._mk(self.o, 0)

    def to_real(self):
        if not isinstance(self.us, int):
            raise EngineError('to_real on symbolic time of day')
        return _RD.fromordinal(self.o) + _RTD(microseconds=self.us)

    def strftime(self, fmt):
        us = self.us if isinstance(self.us, int) else 0
        return (_RD.fromordinal(self.o) + _RTD(microseconds=us)).strftime(fmt)

    # arithmetic
    def _shift(self, days, us):
        if isinstance(us, int) and us == 0:
            return XDateTime._mk(self.o + days, self.us)  # whole days: the time of day is untouched
        nd = self.o + days
        nus = self.us + us
        if isinstance(nus, int):
            dd, nus = divmod(nus, DAY_US)
            return XDateTime._mk(nd + dd, nus)
        for _ in range(6):
            if bool(nus >= DAY_US):
                nus = nus - DAY_US
                nd += 1
            elif bool(nus < 0):
                nus = nus + DAY_US
                nd -= 1
            else:
                return XDateTime._mk(nd, nus)
        raise EngineError('datetime normalisation did not converge')

    def __add__(self, o):
        if isinstance(o, _RTD):
            o = from_real_td(o)
        if isinstance(o, XTimeDelta):
            return self._shift(o.days, o.us)
        return NotImplemented

    __radd__ = __add__

    def __sub__(self, o):
        if isinstance(o, _RTD):
            o = from_real_td(o)
        if isinstance(o, XTimeDelta):
            return self._shift(-o.days, -o.us)
        if isinstance(o, _RD):
            o = from_real(o)
        if isinstance(o, XDateTime):
            return XTimeDelta._mk(self.o - o.o, self.us - o.us)
        return NotImplemented

    def _cmp(self, o, fday, fus):
        if isinstance(o, _RD):
            o = from_real(o)
        if not isinstance(o, XDateTime):
            return NotImplemented
        if self.o != o.o:
            return fday(self.o, o.o)
        return fus(self.us, o.us)

    def __eq__(self, o):
        r = self._cmp(o, lambda a, b: False, lambda a, b: a == b)
        return False if r is NotImplemented else r

    def __ne__(self, o):
        r = self._cmp(o, lambda a, b: True, lambda a, b: a != b)
        return True if r is NotImplemented else r

    def __lt__(self, o):
        return self._cmp(o, lambda a, b: a < b, lambda a, b: a < b)

    def __le__(self, o):
        return self._cmp(o, lambda a, b: a < b, lambda a, b: a <= b)

    def __gt__(self, o):
        return self._cmp(o, lambda a, b: a > b, lambda a, b: a > b)

    def __ge__(self, o):
        return self._cmp(o, lambda a, b: a > b, lambda a, b: a >= b)

    def __hash__(self):
        if isinstance(self.us, int):
            return hash((self.o, self.us))
        return HASH_CONST

    def __repr__(self):
        return f'XDateTime({_real.date.fromordinal(self.o).isoformat()} +{self.us}us)'

    __str__ = __repr__


def from_real(d):
    return XDateTime._mk(d.toordinal(), ((d.hour * 60 + d.minute) * 60 + d.second) * 10 ** 6 + d.microsecond)


def dt(ordinal, us=0):
    """Harness-side constructor (mode agnostic)."""
    if core.is_native():
        return _RD.fromordinal(ordinal) + _RTD(microseconds=int(us))
    return XDateTime._mk(ordinal, us)
