from .core import (fresh_int, fresh_real, fresh_bool, const_int, choose, choose_from, assume, check, check_all, fail, note, info,
                   And, Or, Not, Implies, Iff, SymInt, SymReal, SymBool, PathAbort, EngineError, is_native, is_sym,
                   DAY_US)
from .xdt import dt, XDateTime, XTimeDelta
