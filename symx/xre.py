"""Bounded symbolic strings with inspectable content (`SymText`: concrete length, symbolic
code points) and `re.search` of a concrete pattern on them (Thompson NFA built from the
pattern's sre parse tree, unrolled over the characters)."""
import re as _re

try:
    import re._parser as _parser
    import re._constants as _c
except ImportError:  # pragma: no cover
    import sre_parse as _parser
    import sre_constants as _c

import z3

from . import core
from .core import SymInt, SymBool


class SymText:
    """String of concrete length whose characters are SymInt code points (or ints)."""

    def __init__(self, chars):
        self.chars = list(chars)

    def __len__(self):
        return len(self.chars)

    def _other(self, o):
        if isinstance(o, SymText):
            return o.chars
        if isinstance(o, str):
            return [ord(c) for c in o]
        return None

    def __eq__(self, o):
        oc = self._other(o)
        if oc is None or len(oc) != len(self.chars):
            return False
        conds = [a == b for a, b in zip(self.chars, oc)]
        return core.And(*conds) if conds else True

    def __ne__(self, o):
        r = self.__eq__(o)
        return core.Not(r)

    def _lt(self, oc, strict_result_on_equal):
        # lexicographic: exists k: prefix equal and a_k < b_k, or a is a proper prefix of b
        alts = []
        n = min(len(self.chars), len(oc))
        for k in range(n):
            pre = [self.chars[j] == oc[j] for j in range(k)]
            alts.append(core.And(*(pre + [self.chars[k] < oc[k]])))
        pre = [self.chars[j] == oc[j] for j in range(n)]
        if len(self.chars) < len(oc):
            alts.append(core.And(*pre) if pre else True)
        elif len(self.chars) == len(oc) and strict_result_on_equal:
            alts.append(core.And(*pre) if pre else True)
        return core.Or(*alts) if alts else False

    def __lt__(self, o):
        oc = self._other(o)
        if oc is None:
            return NotImplemented
        return self._lt(oc, False)

    def __le__(self, o):
        oc = self._other(o)
        if oc is None:
            return NotImplemented
        return self._lt(oc, True)

    def __gt__(self, o):
        oc = self._other(o)
        if oc is None:
            return NotImplemented
        return core.Not(self._lt(oc, True))

    def __ge__(self, o):
        oc = self._other(o)
        if oc is None:
            return NotImplemented
        return core.Not(self._lt(oc, False))

    def __hash__(self):
        return core.HASH_CONST

    def __repr__(self):
        return f'<SymText len={len(self.chars)}>'

    __str__ = __repr__


def fresh_text(name, max_len, alphabet='abc'):
    """Symbolic text: length forked 0..max_len, code points within the alphabet's range."""
    n = core.choose(name + '#len', max_len + 1)
    lo, hi = min(map(ord, alphabet)), max(map(ord, alphabet))
    chars = [core.fresh_int(f'{name}#c{k}', lo, hi) for k in range(n)]
    if core.is_native():
        return ''.join(chr(c) for c in chars)
    return SymText(chars)


# ---------------------------------------------------------------------------
# NFA

class _NFA:
    def __init__(self):
        self.n = 0
        self.eps = {}  # state -> [(cond, state)]  cond in (None, 'bol', 'eol')
        self.step = {}  # state -> [(charcond, state)]

    def new(self):
        self.n += 1
        return self.n - 1

    def add_eps(self, a, b, cond=None):
        self.eps.setdefault(a, []).append((cond, b))

    def add_step(self, a, cc, b):
        self.step.setdefault(a, []).append((cc, b))


class Unsupported(Exception):
    pass


def _charset(items):
    """[(lo, hi)], negate from an IN node."""
    neg = False
    rs = []
    for op, av in items:
        if op == _c.NEGATE:
            neg = True
        elif op == _c.LITERAL:
            rs.append((av, av))
        elif op == _c.RANGE:
            rs.append((av[0], av[1]))
        elif op == _c.CATEGORY:
            if av == _c.CATEGORY_DIGIT:
                rs.append((48, 57))
            elif av == _c.CATEGORY_SPACE:
                rs += [(9, 13), (32, 32)]
            elif av == _c.CATEGORY_WORD:
                rs += [(48, 57), (65, 90), (95, 95), (97, 122)]
            else:
                raise Unsupported(str(av))
        else:
            raise Unsupported(str(op))
    return rs, neg


def _build(nfa, seq, start):
    """Appends the fragment for the parsed sequence, returns its end state."""
    cur = start
    for op, av in seq:
        if op == _c.LITERAL:
            nxt = nfa.new()
            nfa.add_step(cur, ('set', [(av, av)], False), nxt)
            cur = nxt
        elif op == _c.NOT_LITERAL:
            nxt = nfa.new()
            nfa.add_step(cur, ('set', [(av, av)], True), nxt)
            cur = nxt
        elif op == _c.ANY:
            nxt = nfa.new()
            nfa.add_step(cur, ('set', [(10, 10)], True), nxt)  # '.' does not match newline
            cur = nxt
        elif op == _c.IN:
            rs, neg = _charset(av)
            nxt = nfa.new()
            nfa.add_step(cur, ('set', rs, neg), nxt)
            cur = nxt
        elif op == _c.BRANCH:
            end = nfa.new()
            for alt in av[1]:
                s = nfa.new()
                nfa.add_eps(cur, s)
                e = _build(nfa, alt, s)
                nfa.add_eps(e, end)
            cur = end
        elif op == _c.SUBPATTERN:
            cur = _build(nfa, av[3], cur)
        elif op in (_c.MAX_REPEAT, _c.MIN_REPEAT):
            lo, hi, sub = av
            for _ in range(lo):
                cur = _build(nfa, sub, cur)
            if hi == _c.MAXREPEAT:
                loop = nfa.new()
                nfa.add_eps(cur, loop)
                e = _build(nfa, sub, loop)
                nfa.add_eps(e, loop)
                cur = loop
            else:
                end = nfa.new()
                nfa.add_eps(cur, end)
                for _ in range(hi - lo):
                    cur = _build(nfa, sub, cur)
                    nfa.add_eps(cur, end)
                cur = end
        elif op == _c.AT:
            nxt = nfa.new()
            if av in (_c.AT_BEGINNING, _c.AT_BEGINNING_STRING):
                nfa.add_eps(cur, nxt, 'bol')
            elif av in (_c.AT_END, _c.AT_END_STRING):
                nfa.add_eps(cur, nxt, 'eol')
            else:
                raise Unsupported(str(av))
            cur = nxt
        else:
            raise Unsupported(str(op))
    return cur


_CACHE = {}


def compile_nfa(pattern):
    hit = _CACHE.get(pattern)
    if hit is None:
        tree = _parser.parse(pattern)
        nfa = _NFA()
        s = nfa.new()
        e = _build(nfa, list(tree), s)
        hit = _CACHE[pattern] = (nfa, s, e)
    return hit


def _closure(nfa, states, pos, length, trailing_newline_ok):
    """eps-closure of {state: z3 Bool} at a concrete position."""
    out = dict(states)
    todo = list(states)
    while todo:
        s = todo.pop()
        for cond, t in nfa.eps.get(s, []):
            if cond == 'bol' and pos != 0:
                continue
            if cond == 'eol' and pos != length:
                continue
            old = out.get(t)
            new = out[s] if old is None else z3.Or(old, out[s])
            if old is None or not z3.eq(z3.simplify(new), z3.simplify(old)):
                out[t] = new
                todo.append(t)
    return out


def _cc(charcond, ch):
    _, rs, neg = charcond
    e = ch.e if isinstance(ch, SymInt) else z3.IntVal(ch)
    inside = z3.Or(*[z3.And(e >= lo, e <= hi) for lo, hi in rs]) if rs else z3.BoolVal(False)
    return z3.Not(inside) if neg else inside


def search(pattern, text):
    """re.search(pattern, text) is not None, as SymBool (text: SymText) or bool (str)."""
    if isinstance(text, str):
        return _re.search(pattern, text) is not None
    nfa, s0, acc = compile_nfa(pattern)
    chars = text.chars
    L = len(chars)
    T = z3.BoolVal(True)
    found = []
    active = {}
    for p in range(L + 1):
        active = dict(active)
        active[s0] = T  # unanchored search: a match may start at every position
        active = _closure(nfa, active, p, L, False)
        if acc in active:
            found.append(active[acc])
        if p == L:
            break
        nxt = {}
        for s, b in active.items():
            for cc, t in nfa.step.get(s, []):
                cond = z3.And(b, _cc(cc, chars[p]))
                nxt[t] = cond if t not in nxt else z3.Or(nxt[t], cond)
        active = nxt
    if not found:
        return False
    return SymBool(z3.Or(*found))


class ReShim:
    """Drop-in for the `re` module inside pjplan.task: symbolic texts go to the NFA, everything else to re."""

    def __getattr__(self, name):
        return getattr(_re, name)

    @staticmethod
    def search(pattern, string, flags=0):
        if isinstance(string, SymText):
            if flags:
                raise Unsupported('flags')
            r = search(pattern, string)
            return r  # truthiness is what pjplan uses
        return _re.search(pattern, string, flags)
