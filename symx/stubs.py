"""Environment stubs: rebinding module globals of the imported pjplan modules."""
import datetime as _real
import importlib
import sys

from . import core, xdt

DT_MODULES = ['pjplan.schedule', 'pjplan.resource', 'pjplan.calendar']


class _Installed:
    def __init__(self):
        self.saved = []

    def set(self, modname, attr, value):
        mod = importlib.import_module(modname)
        self.saved.append((mod, attr, mod.__dict__.get(attr, _Installed)))
        setattr(mod, attr, value)

    def restore(self):
        for mod, attr, old in reversed(self.saved):
            if old is _Installed:
                delattr(mod, attr)
            else:
                setattr(mod, attr, old)
        self.saved = []


def make_fixed_now_class(now_value):
    class FixedNow(_real.datetime):
        @classmethod
        def now(cls, tz=None):
            v = now_value() if callable(now_value) else now_value
            return v

    return FixedNow


class clock_and_dates:
    """Context manager: symbolic mode -> XDateTime/XTimeDelta in the pjplan modules and
    now() = `now`; native mode -> a datetime subclass whose now() returns `now`."""

    def __init__(self, now, modules=DT_MODULES):
        self.now = now
        self.modules = modules
        self.inst = _Installed()

    def __enter__(self):
        if core.is_native():
            cls = make_fixed_now_class(self.now)
            for m in self.modules:
                self.inst.set(m, 'datetime', cls)
        else:
            xdt.set_now(self.now)
            for m in self.modules:
                self.inst.set(m, 'datetime', xdt.XDateTime)
                mod = sys.modules[m]
                if 'timedelta' in mod.__dict__:
                    self.inst.set(m, 'timedelta', xdt.XTimeDelta)
        return self

    def __exit__(self, *a):
        self.inst.restore()
        xdt.set_now(None)
        return False
