"""Check runner: explores the harnesses of one property, replays counterexamples
natively, matches known findings, writes evidence, prints VIOLATION lines."""
import hashlib
import importlib
import json
import os
import re
import sys
import time

from . import core
from .explore import explore, run_native, run_path, Stats

ROOT = os.path.dirname(os.path.dirname(os.path.abspath(__file__)))
EXIT_OK, EXIT_VIOLATION, EXIT_ENGINE = 0, 1, 2


def load_known():
    p = os.path.join(ROOT, 'known_findings.json')
    if not os.path.exists(p):
        return []
    with open(p) as f:
        return json.load(f).get('findings', [])


def match_known(v, harness_name, known):
    for k in known:
        if k.get('status') != 'known':
            continue
        m = k.get('match')
        if not m:
            continue  # matched only through the in-harness symbolic predicate (known_hits)
        if m.get('harness') and m['harness'] != harness_name:
            continue
        if m.get('label') and not re.search(m['label'], v.get('label') or ''):
            continue
        if m.get('detail') and not re.search(m['detail'], str(v.get('detail') or '')):
            continue
        if m.get('desc') and not re.search(m['desc'], str((v.get('notes') or {}).get('desc') or '')):
            continue
        return k
    return None


def functions_entered(harness, cfg):
    """pjplan functions entered on the first path (sys.setprofile)."""
    seen = set()

    def prof(frame, event, arg):
        if event == 'call':
            fn = frame.f_code.co_filename
            if '/pjplan/' in fn:
                seen.add(fn.split('/pjplan/')[-1] + ':' + frame.f_code.co_qualname)

    sys.setprofile(prof)
    try:
        run_path(harness, cfg, [], path_timeout=30)
    finally:
        sys.setprofile(None)
    return sorted(seen)


def _vkey(v):
    return (v.get('label'), str(v.get('detail'))[:80])


def run_property(mod, tier, seed, only=None):
    t_start = time.time()
    prop = mod.PROPERTY
    known = [k for k in load_known() if k.get('property') == prop]
    core.ACTIVE_KNOWN.clear()
    core.ACTIVE_KNOWN.update(k['id'] for k in known if k.get('status') == 'known')
    specs = mod.harnesses(tier)
    core.XCHECK_EVERY = int(os.environ.get('SYMX_XCHECK', '200' if tier == 'thorough' else '0'))
    if only:
        specs = [s for s in specs if s['name'] in only]
    total = Stats()
    per_h = []
    exhausted_all = True
    engine_errors = []
    confirmed = []
    known_lines = {}
    unreproduced = []
    funcs = set()
    validated = 0
    for sp in specs:
        h, cfg = sp['fn'], dict(sp['cfg'])
        cfg['_seed'] = seed
        t0 = time.time()
        try:
            funcs.update(functions_entered(h, cfg))
        except BaseException as e:  # profiling is best effort
            pass
        # caps: a pathological tree (e.g. state leaking between calls) must not hang the check; reaching a cap = not exhaustive
        dl = sp.get('deadline_s', 1500 if tier == 'thorough' else 480)
        if os.environ.get('SYMX_DEADLINE_S'):
            dl = int(os.environ['SYMX_DEADLINE_S'])
        st, exhausted = explore(h, cfg, workers=sp.get('workers'), deadline_s=dl,
                                unit_paths=sp.get('unit_paths', 150), opts=sp.get('opts'))
        wall = time.time() - t0
        if st.errors:
            engine_errors.append(f"{sp['name']}: {st.errors} paths ended in a harness/engine error, e.g. {st.error_msgs[:1]}")
        if st.counters.get('xcheck_disagree') or st.counters.get('xcheck_error'):
            engine_errors.append(f"{sp['name']}: second solver disagreed or reported an error: {st.counters}")
        if st.reached == 0:
            engine_errors.append(f"{sp['name']}: vacuous - no path reached an assertion")
        if not exhausted or st.inconclusive:
            exhausted_all = False
        # triage violations
        groups = {}
        for v in st.violations:
            groups.setdefault(_vkey(v), []).append(v)
        for key, vs in groups.items():
            v = vs[0]
            v['harness'] = sp['name']
            kf = match_known(v, sp['name'], known)
            nat = None
            try:
                nat = run_native(h, cfg, v['model'], v['choices'])
            except BaseException as e:
                nat = None
                v['native_error'] = f'{type(e).__name__}: {e}'
            validated += 1
            reproduced = bool(nat) and any(n['label'] == v['label'] for n in nat)
            if kf is not None:
                known_lines.setdefault(kf['id'], (kf, v, reproduced, len(vs)))
                continue
            if reproduced:
                v['native'] = [n for n in nat if n['label'] == v['label']][:1]
                v['count'] = len(vs)
                confirmed.append(v)
            else:
                v['native'] = nat
                unreproduced.append(v)
        for kh in st.known_hits:
            kf = next((k for k in known if k['id'] == kh['finding']), None)
            if kf:
                known_lines.setdefault(kf['id'], (kf, kh, True, 1))
        per_h.append({'harness': sp['name'], 'cfg': {k: v for k, v in sp['cfg'].items() if not k.startswith('_')},
                      'paths': st.paths, 'completed': st.completed, 'pruned': st.pruned,
                      'prune_reasons': st.prune_reasons, 'timed_out': st.timed_out, 'errors': st.errors,
                      'reached_assertion': st.reached, 'decisions': st.decisions,
                      'solver_queries': st.solver_queries, 'solver_s': round(st.solver_s, 2),
                      'assertion_queries': st.checks, 'assertion_unsat': st.checks_unsat,
                      'assertion_constant_folded': st.checks_trivial, 'classes': len(st.classes),
                      'exhausted': bool(exhausted and not st.inconclusive), 'inconclusive': len(st.inconclusive),
                      'inconclusive_examples': st.inconclusive[:3],
                      'twin_reachable_paths': st.reached, 'violating_paths': len(st.violations),
                      'wall_s': round(wall, 1), 'counters': st.counters})
        st.classes = {(sp['name'], c) for c in st.classes}  # fork classes are per harness
        st.states = {(sp['name'], c) for c in st.states}
        total.merge(st)
    # output
    os.makedirs(os.path.join(ROOT, 'replays'), exist_ok=True)
    lines = []
    for v in confirmed:
        hsh = hashlib.sha1(json.dumps([v['harness'], v['label'], v['model'], v['choices']], sort_keys=True,
                                      default=str).encode()).hexdigest()[:10]
        path = os.path.join(ROOT, 'replays', f'{prop}-{hsh}.json')
        with open(path, 'w') as f:
            json.dump({'property': prop, 'tier': tier, 'harness': v['harness'], 'label': v['label'],
                       'detail': v.get('detail'), 'model': v['model'], 'choices': v['choices'],
                       'notes': v.get('notes'), 'native_observed': v.get('native'),
                       'paths_with_this_violation': v.get('count')}, f, indent=1, default=str)
        lines.append(f'VIOLATION property={prop} replay={path}')
        print(f'# {v["harness"]}: {v["label"]} :: {v.get("detail")} :: {(v.get("notes") or {}).get("desc")}')
    for kid, (kf, v, reproduced, n) in known_lines.items():
        print(f'KNOWN-FINDING: property={prop} {kid} {kf.get("what")}')
    for v in unreproduced[:5]:
        engine_errors.append(f"counterexample did not replay natively: {v['harness']} {v['label']} {v.get('detail')} "
                             f"model={v['model']} choices={v['choices']} native={v.get('native')} {v.get('native_error', '')}")
    wall = time.time() - t_start
    level = mod.LEVEL
    exhaustive = bool(exhausted_all and not engine_errors)
    cov = {
        'evaluations': total.paths,
        'distinct_nontrivial': len(total.classes),
        'rule': getattr(mod, 'RULE', 'one evaluation = one symbolic path (a solver-decided cell of the bounded input '
                                     'space); distinct = fork classes (shape/operation/argument choices) whose path '
                                     'posed at least one assertion query'),
        'samples': total.samples[:4] or [{'note': 'no completed path'}],
        'obligations': total.checks,
        'discharged': total.checks_unsat,
        'traces_validated_against_impl': validated,
        'exhaustive': exhaustive,
        'explanation': getattr(mod, 'EXPLANATION', ''),
        'bounds': getattr(mod, 'BOUNDS', {}).get(tier, getattr(mod, 'BOUNDS', {})),
        'outside_the_claim': getattr(mod, 'OUTSIDE', []),
        'stubs': getattr(mod, 'STUBS', []),
        'functions_encoded': sorted(funcs),
        'solver': 'z3 ' + __import__('z3').get_version_string(),
        'solver_queries': total.solver_queries,
        'solver_s': round(total.solver_s, 2),
        'decisions': total.decisions,
        'inconclusive': len(total.inconclusive),
        'timed_out_paths': total.timed_out,
        'harnesses': per_h,
        'known_findings_matched': sorted(known_lines.keys()),
        'engine_errors': engine_errors[:10],
    }
    if level == 'model_checking':
        # states = distinct canonical pre-states whose paths reached the assertion; transitions = distinct (pre-state, call) pairs
        cov['states'] = max(1, len(total.states) or len(total.classes))
        cov['transitions'] = max(1, len(total.classes))
    ev = {'property_id': prop, 'tier': tier, 'seed': seed, 'level': level, 'coverage': cov,
          'assumptions': getattr(mod, 'ASSUMPTIONS', []), 'wall_s': round(wall, 2),
          'violations': len(confirmed)}
    os.makedirs(os.path.join(ROOT, 'evidence'), exist_ok=True)
    with open(os.path.join(ROOT, 'evidence', f'{prop}.json'), 'w') as f:
        json.dump(ev, f, indent=1, default=str)
    for ln in lines:
        print(ln)
    summary = (f'{prop} tier={tier}: paths={total.paths} assertion_queries={total.checks} unsat={total.checks_unsat} '
               f'solver_queries={total.solver_queries} solver_s={total.solver_s:.1f} exhaustive={exhaustive} '
               f'violations={len(confirmed)} known={len(known_lines)} wall={wall:.1f}s')
    print(summary)
    if total.inconclusive:
        print(f'INCONCLUSIVE {len(total.inconclusive)} queries/paths, e.g. {total.inconclusive[:2]}')
    if lines:
        return EXIT_VIOLATION
    if engine_errors:
        for e in engine_errors[:10]:
            print('ENGINE-ERROR', e, file=sys.stderr)
        return EXIT_ENGINE
    return EXIT_OK


def replay_file(mod, path):
    with open(path) as f:
        r = json.load(f)
    specs = {s['name']: s for s in mod.harnesses(r.get('tier', 'quick'))}
    sp = specs[r['harness']]
    nat = run_native(sp['fn'], dict(sp['cfg']), r['model'], r['choices'])
    print(json.dumps({'label': r['label'], 'reproduced': any(n['label'] == r['label'] for n in nat), 'native': nat},
                     indent=1, default=str))
    return 1 if nat else 0


def main(argv=None):
    import argparse
    ap = argparse.ArgumentParser()
    ap.add_argument('prop')
    ap.add_argument('--tier', default=os.environ.get('VERIF_TIER', 'quick'))
    ap.add_argument('--replay')
    ap.add_argument('--only', nargs='*')
    a = ap.parse_args(argv)
    seed = int(os.environ.get('VERIF_SEED', '0') or 0)
    sys.path.insert(0, ROOT)
    sys.setrecursionlimit(int(os.environ.get("SYMX_RECLIMIT", "400")))
    mod = importlib.import_module('harness.' + a.prop.lower())
    if a.replay:
        return replay_file(mod, a.replay)
    return run_property(mod, a.tier, seed, a.only)
